//go:build verif

package midi

import (
	"fmt"
	"testing"

	"github.com/gethiox/HIDI/internal/pkg/logger"
	"github.com/gethiox/HIDI/internal/verifrt"
)

func TestVerifReplay(t *testing.T) {
	go func() {
		for range logger.Messages {
		}
	}()
	line, failed := verifrt.Run(VerifHarnesses)
	fmt.Println(line)
	if failed {
		t.Fail()
	}
}
