// Overlay stub of the ALSA (rtmidi, cgo) driver so that cmd/hidi loads and builds in the sandbox.
// Nothing under test lives in the real file.
package alsa

import (
	"errors"

	"github.com/gethiox/HIDI/internal/pkg/midi/driver"
)

var errStub = errors.New("alsa driver stubbed out for verification builds")

func CreatePort(name string) (driver.Port, error) { return driver.Port{}, errStub }
func GetPorts() []driver.Port                     { return nil }
func PickMidiPort(idx int) (driver.Port, error)   { return driver.Port{}, errStub }
