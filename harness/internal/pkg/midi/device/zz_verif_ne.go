//go:build verif

package device

import (
	"os"

	"github.com/gethiox/HIDI/internal/pkg/input"
	"github.com/gethiox/HIDI/internal/pkg/midi"
	"github.com/gethiox/HIDI/internal/pkg/midi/device/config"
	"github.com/gethiox/HIDI/internal/verifrt"
	"github.com/holoplot/go-evdev"
)

func init() {
	VerifHarnesses["HarnessNEStep"] = HarnessNEStep
	VerifHarnesses["HarnessNEDisconnect"] = HarnessNEDisconnect
	VerifHarnesses["HarnessNEBmc"] = HarnessNEBmc
	VerifHarnesses["HarnessNEShape"] = HarnessNEShape
}

const (
	aOctUp = iota
	aOctDown
	aSemiUp
	aSemiDown
	aChUp
	aChDown
	aMapUp
	aMapDown
	aPanic
	aMulti
	aLearn
	nActions
)

var actionList = [nActions]config.Action{
	config.OctaveUp, config.OctaveDown, config.SemitoneUp, config.SemitoneDown,
	config.ChannelUp, config.ChannelDown, config.MappingUp, config.MappingDown,
	config.Panic, config.Multinote, config.Learning,
}

var actionCodes = [nActions]evdev.EvCode{
	evdev.KEY_F1, evdev.KEY_F2, evdev.KEY_F3, evdev.KEY_F4, evdev.KEY_F5, evdev.KEY_F6,
	evdev.KEY_F7, evdev.KEY_F8, evdev.KEY_ESC, evdev.KEY_F9, evdev.KEY_F10,
}

// partner of an up/down action, -1 if none
var actionPartner = [nActions]int{aOctDown, aOctUp, aSemiDown, aSemiUp, aChDown, aChUp, aMapDown, aMapUp, -1, -1, -1}

const otherCode = evdev.KEY_Z // a key that is mapped to nothing

type neConfig struct {
	K, M     int
	present  [2][maxKeys]bool
	note     [2][maxKeys]uint8
	off      [2][maxKeys]uint8
	mode     config.CollisionMode
	modeIdx  uint8
	velocity uint8
	defOct   int8
	defSemi  int8
	defCh    uint8
	defMap   int
	exitLen  int
	exit     [3]evdev.EvCode
	cfg      config.Config
}

// codeTable: note keys, action keys, the unmapped key
func allCode(i uint8, K int) evdev.EvCode {
	if int(i) < K {
		return noteCodes[i]
	}
	j := int(i) - K
	if j < nActions {
		return actionCodes[j]
	}
	return otherCode
}

// buildNEConfig creates an arbitrary bounded configuration: M mappings, K note keys each present or not
// per mapping with arbitrary note/offset, all action keys, arbitrary collision mode/velocity, exit sequence of
// length <= EXIT over any of the keys.
func buildNEConfig() *neConfig {
	c := &neConfig{}
	c.K = verifrt.Param("K", 3)
	c.M = verifrt.Param("M", 2)
	maxExit := verifrt.Param("EXIT", 0)
	c.modeIdx = verifrt.U8("cfg.mode") & 3
	if m := verifrt.Param("MODE", -1); m >= 0 {
		c.modeIdx = uint8(m)
	}
	c.mode = pickMode(c.modeIdx)
	c.velocity = verifrt.U8("cfg.velocity")
	verifrt.Assume(c.velocity >= 1 && c.velocity <= 127)
	// arbitrary (non-neutral) defaults: the resets must go to the neutral values, not to these
	c.defOct, c.defSemi, c.defCh = verifrt.I8("cfg.def.octave"), verifrt.I8("cfg.def.semitone"), verifrt.U8("cfg.def.channel")
	c.defMap = int(verifrt.U8("cfg.def.mapping"))
	concrete := verifrt.Param("CONCRETE", 0) == 1
	if concrete {
		c.defOct, c.defSemi, c.defCh, c.defMap = 0, 0, 1, 0
	}
	verifrt.Assume(c.defCh >= 1 && c.defCh <= 16 && c.defMap < c.M)
	var mappings []config.KeyMapping
	for m := 0; m < c.M; m++ {
		keys := map[evdev.EvCode]config.Key{}
		for k := 0; k < c.K; k++ {
			if concrete {
				// fixed layout for shaped histories: keys 0 and 1 share a pitch, key 2 differs; the second mapping
				// remaps key 0, drops key 1 and puts key 2 on the shared pitch
				tblNote := [2][3]uint8{{60, 60, 62}, {64, 0, 60}}
				tblOff := [2][3]uint8{{0, 0, 1}, {0, 0, 0}}
				tblHas := [2][3]bool{{true, true, true}, {true, false, true}}
				c.present[m][k], c.note[m][k], c.off[m][k] = tblHas[m][k%3], tblNote[m][k%3], tblOff[m][k%3]
			} else {
				c.present[m][k] = verifrt.Bool(verifrt.N("cfg.present", m, k))
				c.note[m][k] = verifrt.U8(verifrt.N("cfg.note", m, k))
				c.off[m][k] = verifrt.U8(verifrt.N("cfg.off", m, k))
			}
			verifrt.Assume(c.note[m][k] <= 127 && c.off[m][k] <= 15)
			if c.present[m][k] {
				keys[noteCodes[k]] = config.Key{Note: c.note[m][k], ChannelOffset: c.off[m][k]}
			}
		}
		name := "m0"
		if m == 1 {
			name = "m1"
		}
		mappings = append(mappings, config.KeyMapping{Name: name, Midi: map[string]map[evdev.EvCode]config.Key{"": keys}})
	}
	actions := map[evdev.EvCode]config.Action{}
	for a := 0; a < nActions; a++ {
		actions[actionCodes[a]] = actionList[a]
	}
	var exit []evdev.EvCode
	if maxExit > 0 {
		c.exitLen = int(verifrt.U8("cfg.exitlen"))
		verifrt.Assume(c.exitLen <= maxExit)
		for i := 0; i < maxExit; i++ {
			x := verifrt.U8(verifrt.N("cfg.exit", i))
			verifrt.Assume(int(x) <= c.K+nActions)
			c.exit[i] = allCode(x, c.K)
			if i < c.exitLen {
				exit = append(exit, c.exit[i])
			}
		}
	}
	c.cfg = config.Config{
		KeyMappings:   mappings,
		ActionMapping: actions,
		ExitSequence:  exit,
		CollisionMode: c.mode,
		Defaults:      config.Defaults{Octave: int(c.defOct), Semitone: int(c.defSemi), Channel: int(c.defCh), Mapping: c.defMap, Velocity: int(c.velocity)},
	}
	return c
}

// neState is the ghost view of the arbitrary pre-state.
type neState struct {
	held    [maxKeys]bool
	tracked [maxKeys]bool
	tnote   [maxKeys]uint8
	tch     [maxKeys]uint8
	aheld   [nActions]bool
	atr     [nActions]bool // action is in actionTracker
	oheld   bool
	octave  int8
	semi    int8
	channel uint8
	mapping int
	learn   bool
}

// havocState replaces the playing state of d by an arbitrary state satisfying the invariant
//   tracked[k] => held[k], pairs in range, counter[ch][n] = number of tracked keys with that pair,
//   keyTracker = set of held keys, actionTracker[a] => held[a], channel <= 15, mapping in range.
func havocState(d *Device, c *neConfig) *neState {
	s := &neState{}
	for k := 0; k < c.K; k++ {
		s.held[k] = verifrt.Bool(verifrt.N("pre.held", k))
		s.tracked[k] = verifrt.Bool(verifrt.N("pre.tracked", k))
		s.tnote[k] = verifrt.U8(verifrt.N("pre.tnote", k))
		s.tch[k] = verifrt.U8(verifrt.N("pre.tch", k))
		verifrt.Assume(!s.tracked[k] || s.held[k])
		verifrt.Assume(s.tnote[k] <= 127 && s.tch[k] <= 15)
		if s.tracked[k] {
			d.noteTracker[noteCodes[k]] = [2]byte{s.tnote[k], s.tch[k]}
			d.activeNotesCounter[s.tch[k]][s.tnote[k]]++
		}
		if s.held[k] {
			d.keyTracker[noteCodes[k]] = struct{}{}
		}
	}
	for a := 0; a < nActions; a++ {
		s.aheld[a] = verifrt.Bool(verifrt.N("pre.aheld", a))
		s.atr[a] = verifrt.Bool(verifrt.N("pre.atr", a))
		verifrt.Assume(!s.atr[a] || s.aheld[a])
		// a held action key is tracked, except one whose press was swallowed as the completing press of the exit
		// sequence (INVt2)
		verifrt.Assume(!s.aheld[a] || s.atr[a] || c.inExit(actionCodes[a]))
		if s.aheld[a] {
			d.keyTracker[actionCodes[a]] = struct{}{}
		}
		if s.atr[a] {
			d.actionTracker[actionList[a]] = true
		}
	}
	s.oheld = verifrt.Bool("pre.oheld")
	if s.oheld {
		d.keyTracker[otherCode] = struct{}{}
	}
	s.octave = verifrt.I8("pre.octave")
	s.semi = verifrt.I8("pre.semitone")
	s.channel = verifrt.U8("pre.channel")
	s.mapping = int(verifrt.U8("pre.mapping"))
	s.learn = verifrt.Bool("pre.learning")
	verifrt.Assume(s.channel <= 15)
	verifrt.Assume(s.mapping < c.M)
	d.octave, d.semitone, d.channel, d.mapping, d.ccLearning = s.octave, s.semi, s.channel, s.mapping, s.learn
	return s
}

// inExit: the key is part of the configured exit sequence.
func (c *neConfig) inExit(code evdev.EvCode) bool {
	for i := 0; i < c.exitLen; i++ {
		if c.exit[i] == code {
			return true
		}
	}
	return false
}

// resolve is the reference resolution of a key press in 64-bit arithmetic.
func (c *neConfig) resolve(k int, s *neState) (ok bool, note, ch uint8) {
	if !c.present[s.mapping][k] {
		return false, 0, 0
	}
	n := int(c.note[s.mapping][k]) + 12*int(s.octave) + int(s.semi)
	if n < 0 || n > 127 {
		return false, 0, 0
	}
	return true, uint8(n), (s.channel + c.off[s.mapping][k]) % 16
}

func wellFormed(e midi.Event) bool {
	if len(e) != 3 {
		return false
	}
	st := e[0] & 0xf0
	return (st == midi.NoteOn || st == midi.NoteOff || st == midi.ControlChange || st == midi.PitchWheelChange) && e[1] <= 127 && e[2] <= 127
}

// applyToReceiver updates "is the witness (wch, wn) sounding" by one message, as a MIDI receiver would.
func applyToReceiver(sounding bool, e midi.Event, wch, wn uint8) bool {
	if len(e) != 3 {
		return sounding
	}
	st, ch := e[0]&0xf0, e[0]&0x0f
	if ch != wch {
		return sounding
	}
	switch {
	case st == midi.NoteOn && e[1] == wn:
		return e[2] > 0
	case st == midi.NoteOff && e[1] == wn:
		return false
	case st == midi.ControlChange && (e[1] == midi.AllNotesOff || e[1] == midi.AllSoundOff):
		return false
	}
	return sounding
}

func isNote(e midi.Event, kind uint8, ch, note uint8) bool {
	return len(e) == 3 && e[0] == kind|ch && e[1] == note
}

// HarnessNEStep: ONE arbitrary key event from an ARBITRARY invariant state through the real processEvent.
// Since the invariant is re-established, the per-step assertions hold along histories of any length.
func HarnessNEStep() {
	c := buildNEConfig()
	out := make(chan midi.Event, 256)
	sigs := make(chan os.Signal, 4)
	d := newTestDevice(c.cfg, out, sigs)
	s := havocState(&d, c)

	// witness (channel, pitch) and its receiver-side state
	wch, wn := verifrt.U8("w.ch"), verifrt.U8("w.note")
	verifrt.Assume(wch <= 15 && wn <= 127)
	sounding := verifrt.Bool("pre.sounding")
	preCntW := d.activeNotesCounter[wch][wn]
	verifrt.Assume(preCntW != 0 || !sounding) // invariant (e)

	// the event
	// EVKIND (concrete per run): 0 note key, 1 action key other than panic, 2 unmapped key, 3 panic key
	evk := verifrt.Param("EVKIND", 0)
	kind := uint8(evk)
	press := verifrt.Bool("ev.press")
	idx := int(verifrt.U8("ev.idx"))
	if evk == 3 { // panic press
		kind = 1
		idx = aPanic
		press = true
	} else if evk == 1 { // action ACT (concrete), any of press/release; panic only released here
		idx = verifrt.Param("ACT", 0)
		if idx == aPanic {
			press = false
		}
	}
	var code evdev.EvCode
	switch kind {
	case 0:
		verifrt.Assume(idx < c.K)
		verifrt.Assume(s.held[idx] != press) // kernel alternation
		code = noteCodes[idx]
	case 1:
		verifrt.Assume(idx < nActions)
		verifrt.Assume(s.aheld[idx] != press)
		code = actionCodes[idx]
	default:
		verifrt.Assume(idx == 0)
		verifrt.Assume(s.oheld != press)
		code = otherCode
	}
	// C04: at most one complete pair held, no third action pressed while a pair is held
	pairHeld := (s.atr[aOctUp] && s.atr[aOctDown]) || (s.atr[aSemiUp] && s.atr[aSemiDown]) ||
		(s.atr[aChUp] && s.atr[aChDown]) || (s.atr[aMapUp] && s.atr[aMapDown])
	verifrt.Assume(!(kind == 1 && press && pairHeld))

	neStep(c, &d, out, sigs, s, wch, wn, sounding, kind, idx, press, code)
}

// neStep sends one key event through the real processEvent and checks every per-step rule against the ghost
// pre-state s (which it updates). It returns the receiver-side state of the witness pitch.
func neStep(c *neConfig, d *Device, out chan midi.Event, sigs chan os.Signal, s *neState, wch, wn uint8, sounding bool, kind uint8, idx int, press bool, code evdev.EvCode) bool {
	// reference values computed BEFORE the event
	var resOk bool
	var resN, resCh uint8
	var hRes int
	var trackedPre bool
	var tN, tCh uint8
	var hT int
	if kind == 0 {
		resOk, resN, resCh = c.resolve(idx, s)
		if resOk {
			hRes = d.activeNotesCounter[resCh][resN]
		}
		trackedPre, tN, tCh = s.tracked[idx], s.tnote[idx], s.tch[idx]
		if trackedPre {
			hT = d.activeNotesCounter[tCh][tN]
		}
	}
	// exit sequence oracle: this press completes the sequence
	completes := false
	if press && c.exitLen > 0 {
		completes = true
		for i := 0; i < c.exitLen; i++ {
			x := c.exit[i]
			h := x == code
			for k := 0; k < c.K; k++ {
				if x == noteCodes[k] && s.held[k] {
					h = true
				}
			}
			for a := 0; a < nActions; a++ {
				if x == actionCodes[a] && s.aheld[a] {
					h = true
				}
			}
			if x == otherCode && s.oheld {
				h = true
			}
			if !h {
				completes = false
			}
		}
	}

	d.processEvent(keyEvent(code, boolToVal(press)))

	// messages of this step
	n := 0
	var msgs [4]midi.Event
	allWF := true
	panicShape := true // message j of a panic is CC123 (j=0) or NoteOff j-1 on the pre-state channel
	for len(out) > 0 {
		e := <-out
		if n < 4 {
			msgs[n] = e
		}
		allWF = allWF && wellFormed(e)
		sounding = applyToReceiver(sounding, e, wch, wn)
		if n == 0 {
			panicShape = panicShape && len(e) == 3 && e[0] == midi.ControlChange|s.channel && e[1] == midi.AllNotesOff && e[2] == 0
		} else {
			panicShape = panicShape && len(e) == 3 && e[0] == midi.NoteOff|s.channel && int(e[1]) == n-1 && e[2] == 0
		}
		n++
	}
	nsig := len(sigs)

	verifrt.Assert(allWF, "C05: every emitted message is a well-formed 3-byte channel message")

	// ---- C14: exit sequence ----
	if completes {
		verifrt.Cover("C14: a press completes the exit sequence")
		verifrt.Assert(nsig == 1, "C14: termination signal raised exactly when the sequence completes")
		verifrt.Assert(n == 0, "C14: the completing press emits no MIDI")
		verifrt.Assert(d.octave == s.octave && d.semitone == s.semi && d.channel == s.channel && d.mapping == s.mapping && d.ccLearning == s.learn,
			"C14: the completing press triggers no action of its own")
		for k := 0; k < c.K; k++ {
			_, tr := d.noteTracker[noteCodes[k]]
			verifrt.Assert(tr == s.tracked[k], "C14: the completing press starts no note")
		}
		// ghost: the key is down
		if kind == 0 {
			s.held[idx] = press
		} else if kind == 1 {
			s.aheld[idx] = press
		} else {
			s.oheld = press
		}
		// the swallowed key is physically down: the pressed-key set must say so, or a later re-press of another
		// sequence key would not complete the sequence again
		for k := 0; k < c.K; k++ {
			_, in := d.keyTracker[noteCodes[k]]
			verifrt.Assert(in == s.held[k], "INVk: pressed-key set equals the held keys")
		}
		for a := 0; a < nActions; a++ {
			_, in := d.keyTracker[actionCodes[a]]
			verifrt.Assert(in == s.aheld[a], "INVk: pressed-key set equals the held keys")
		}
		_, inO := d.keyTracker[otherCode]
		verifrt.Assert(inO == s.oheld, "INVk: pressed-key set equals the held keys")
		return sounding
	}
	verifrt.Assert(nsig == 0, "C14: no termination signal unless all sequence keys are down")

	// ---- new ghost state ----
	if kind == 0 {
		s.held[idx] = press
	} else if kind == 1 {
		s.aheld[idx] = press
	} else {
		s.oheld = press
	}

	// ---- per-kind emission rules ----
	switch {
	case kind == 0 && press:
		verifrt.Cover("NE: note key press")
		if !resOk {
			verifrt.Assert(n == 0, "C04: unmapped or out-of-range press sends nothing")
		} else {
			on := midi.NoteEvent(midi.NoteOn, resCh, resN, c.velocity)
			wantOff := c.modeIdx == 2 && hRes > 0
			wantOn := !(c.modeIdx == 1 && hRes > 0)
			switch {
			case wantOff:
				verifrt.Cover("C03: interrupt with the pitch already held")
				verifrt.Assert(n == 2 && isNote(msgs[0], midi.NoteOff, resCh, resN) && sameEvent(msgs[1], on),
					"C03: interrupt sends Note Off then Note On when the pitch is already held")
			case wantOn:
				verifrt.Assert(n == 1 && sameEvent(msgs[0], on),
					"C03/C04: press sends exactly Note On(base+12*octave+semitone, ((channel-1+offset) mod 16)+1, velocity)")
			default:
				verifrt.Cover("C03: no_repeat suppresses a second holder")
				verifrt.Assert(n == 0, "C03: no_repeat sends nothing while the pitch is already held")
			}
			v, tr := d.noteTracker[code]
			verifrt.Assert(tr && v[0] == resN && v[1] == resCh, "INVr/C02: the press records exactly the pair it resolved")
		}
	case kind == 0 && !press:
		verifrt.Cover("NE: note key release")
		if !trackedPre {
			verifrt.Assert(n == 0, "C02: releasing a key that started nothing sends nothing")
		} else {
			wantOff := c.modeIdx == 0 || hT == 1
			if wantOff {
				verifrt.Assert(n == 1 && isNote(msgs[0], midi.NoteOff, tCh, tN),
					"C02/C03: release sends exactly one Note Off carrying the channel and pitch of its Note On")
			} else {
				verifrt.Cover("C03: release while another holder remains")
				verifrt.Assert(n == 0, "C03: managed modes send Note Off only at the release of the last holder")
			}
		}
		_, tr := d.noteTracker[code]
		verifrt.Assert(!tr, "INVa/INVr: a released key is no longer tracked")
	case kind == 1 && press && idx == aPanic:
		verifrt.Cover("C13: panic")
		verifrt.Assert(n == 129 && panicShape, "C13: panic sends All Notes Off plus Note Off for all 128 pitches on the current channel, nothing else")
	default:
		verifrt.Assert(n == 0, "C02: state actions and unmapped keys emit no MIDI")
	}

	// ---- tracker of other keys untouched (C02 / C13) ----
	for k := 0; k < c.K; k++ {
		if kind == 0 && k == idx {
			continue
		}
		v, tr := d.noteTracker[noteCodes[k]]
		verifrt.Assert(tr == s.tracked[k] && (!tr || (v[0] == s.tnote[k] && v[1] == s.tch[k])),
			"INVr/C02/C13: an event never changes what other held keys will release")
	}

	// ---- C04: state actions ----
	wantOct, wantSemi, wantCh, wantMap, wantLearn := s.octave, s.semi, s.channel, s.mapping, s.learn
	if kind == 1 && press {
		p := actionPartner[idx]
		if p >= 0 && s.atr[p] {
			verifrt.Cover("C04: both keys of a pair")
			switch idx {
			case aOctUp, aOctDown:
				wantOct = 0
			case aSemiUp, aSemiDown:
				wantSemi = 0
			case aChUp, aChDown:
				wantCh = 0
			case aMapUp, aMapDown:
				wantMap = 0
			}
		} else {
			switch idx {
			case aOctUp:
				wantOct++
			case aOctDown:
				wantOct--
			case aSemiUp:
				wantSemi++
			case aSemiDown:
				wantSemi--
			case aChUp:
				if wantCh < 15 {
					wantCh++
				}
			case aChDown:
				if wantCh > 0 {
					wantCh--
				}
			case aMapUp:
				if wantMap < c.M-1 {
					wantMap++
				}
			case aMapDown:
				if wantMap > 0 {
					wantMap--
				}
			case aLearn:
				wantLearn = true
			}
		}
	}
	if kind == 1 && !press && idx == aLearn {
		wantLearn = false
	}
	st := d.State()
	verifrt.Assert(st.Octave == wantOct && st.Semitone == wantSemi, "C04: octave/semitone move by exactly one, pair resets to 0, nothing else changes them")
	verifrt.Assert(st.Channel == wantCh && st.Channel <= 15, "C04/C05: channel saturates within 1-16, pair resets to 1")
	verifrt.Assert(d.mapping == wantMap && d.mapping >= 0 && d.mapping < c.M, "C04: mapping saturates within the list, pair resets to the first")
	verifrt.Assert(d.ccLearning == wantLearn, "C07: cc_learning is on exactly while its key is held")

	// ---- invariant re-established (C01 inductive step) ----
	cnt := 0
	nTracked := 0
	for k := 0; k < c.K; k++ {
		v, tr := d.noteTracker[noteCodes[k]]
		if tr {
			nTracked++
			verifrt.Assert(s.held[k], "INVa: tracked implies held")
			verifrt.Assert(v[0] <= 127 && v[1] <= 15, "INVa: tracked pair in range")
			if v[0] == wn && v[1] == wch {
				cnt++
			}
		}
	}
	verifrt.Assert(len(d.noteTracker) == nTracked, "INVa: only note keys are tracked")
	postCntW := d.activeNotesCounter[wch][wn]
	verifrt.Assert(postCntW == cnt, "INVb: holder counter equals the number of tracked keys with that pitch")
	verifrt.Assert(postCntW != 0 || !sounding, "INVe: a pitch without holder is not sounding")
	for k := 0; k < c.K; k++ {
		_, in := d.keyTracker[noteCodes[k]]
		verifrt.Assert(in == s.held[k], "INVk: pressed-key set equals the held keys")
	}
	for a := 0; a < nActions; a++ {
		_, in := d.keyTracker[actionCodes[a]]
		verifrt.Assert(in == s.aheld[a], "INVk: pressed-key set equals the held keys")
		verifrt.Assert(!d.actionTracker[actionList[a]] || s.aheld[a], "INVt: tracked action implies held action key")
		verifrt.Assert(!s.aheld[a] || d.actionTracker[actionList[a]] || c.inExit(actionCodes[a]), "INVt: a held action key is tracked (unless its press completed the exit sequence)")
	}
	// ---- C01 quiescence ----
	anyHeld := false
	for k := 0; k < c.K; k++ {
		anyHeld = anyHeld || s.held[k]
	}
	if !anyHeld {
		verifrt.Cover("C01: quiescent state")
		verifrt.Assert(!sounding, "C01: nothing is sounding when no key is held")
	}
	return sounding
}

func boolToVal(press bool) int32 {
	if press {
		return EV_KEY_PRESS
	}
	return EV_KEY_RELEASE
}

func sameEvent(a, b midi.Event) bool {
	if len(a) != len(b) {
		return false
	}
	for i := range a {
		if a[i] != b[i] {
			return false
		}
	}
	return true
}

// HarnessNEDisconnect: from an arbitrary invariant state the event stream ends; the real ProcessEvents
// clean-up must leave nothing sounding (any iteration order of the tracker).
func HarnessNEDisconnect() {
	verifrt.PermuteMaps(true)
	c := buildNEConfig()
	out := make(chan midi.Event, 256)
	d := newTestDevice(c.cfg, out, make(chan os.Signal, 4))
	havocState(&d, c)
	wch, wn := verifrt.U8("w.ch"), verifrt.U8("w.note")
	verifrt.Assume(wch <= 15 && wn <= 127)
	sounding := verifrt.Bool("pre.sounding")
	verifrt.Assume(d.activeNotesCounter[wch][wn] != 0 || !sounding)
	if sounding {
		verifrt.Cover("C01: disconnect while the witness pitch is sounding")
	}
	in := make(chan *input.InputEvent)
	close(in)
	d.ProcessEvents(in)
	allWF := true
	for len(out) > 0 {
		e := <-out
		allWF = allWF && wellFormed(e)
		sounding = applyToReceiver(sounding, e, wch, wn)
	}
	verifrt.Assert(allWF, "C05: every emitted message is a well-formed 3-byte channel message")
	verifrt.Assert(!sounding, "C01: disconnect releases every note that is still sounding")
	verifrt.Assert(len(d.noteTracker) == 0, "C01: nothing stays tracked after disconnect")
}

// HarnessNEBmc: a symbolic history of L key events from the REAL initial state through the real ProcessEvents
// (disconnect after every prefix: the tail is padded with ignored EV_SYN events).
func HarnessNEBmc() {
	c := buildNEConfig()
	L := verifrt.Param("L", 4)
	out := make(chan midi.Event, 1024)
	sigs := make(chan os.Signal, 8)
	d := newTestDevice(c.cfg, out, sigs)
	wch, wn := verifrt.U8("w.ch"), verifrt.U8("w.note")
	verifrt.Assume(wch <= 15 && wn <= 127)
	var held [maxKeys]bool
	var aheld [nActions]bool
	sounding := false
	quiescentViolation := false
	allWF := true
	for i := 0; i < L; i++ {
		kind := verifrt.U8(verifrt.N("ev.kind", i)) // 0 note, 1 action, 2 padding
		idx := int(verifrt.U8(verifrt.N("ev.idx", i)))
		press := verifrt.Bool(verifrt.N("ev.press", i))
		verifrt.Assume(kind <= 2)
		var ev *input.InputEvent
		switch kind {
		case 0:
			verifrt.Assume(idx < c.K)
			verifrt.Assume(held[idx] != press)
			held[idx] = press
			ev = keyEvent(noteCodes[idx], boolToVal(press))
		case 1:
			// state actions only (octave/semitone/channel/mapping up/down); panic has its own step harness
			verifrt.Assume(idx < aPanic)
			verifrt.Assume(aheld[idx] != press)
			aheld[idx] = press
			ev = keyEvent(actionCodes[idx], boolToVal(press))
		default:
			ev = &input.InputEvent{Event: evdev.InputEvent{Type: evdev.EV_SYN}}
		}
		d.processEvent(ev)
		for len(out) > 0 {
			e := <-out
			allWF = allWF && wellFormed(e)
			sounding = applyToReceiver(sounding, e, wch, wn)
		}
		anyHeld := false
		for k := 0; k < c.K; k++ {
			anyHeld = anyHeld || held[k]
		}
		if !anyHeld && sounding {
			quiescentViolation = true
		}
	}
	verifrt.Assert(!quiescentViolation, "C01: nothing is sounding when no key is held")
	in := make(chan *input.InputEvent)
	close(in)
	d.ProcessEvents(in)
	for len(out) > 0 {
		e := <-out
		allWF = allWF && wellFormed(e)
		sounding = applyToReceiver(sounding, e, wch, wn)
	}
	verifrt.Assert(!sounding, "C01: disconnect releases every note that is still sounding")
	verifrt.Assert(allWF, "C05: every emitted message is a well-formed 3-byte channel message")
	verifrt.Cover("NE: end of history")
}

// readState builds the ghost view from the REAL device state (the held sets are kept by the harness).
func readState(d *Device, c *neConfig, prev *neState) *neState {
	s := &neState{held: prev.held, aheld: prev.aheld, oheld: prev.oheld}
	for k := 0; k < c.K; k++ {
		v, ok := d.noteTracker[noteCodes[k]]
		s.tracked[k], s.tnote[k], s.tch[k] = ok, v[0], v[1]
	}
	for a := 0; a < nActions; a++ {
		s.atr[a] = d.actionTracker[actionList[a]]
	}
	s.octave, s.semi, s.channel, s.mapping, s.learn = d.octave, d.semitone, d.channel, d.mapping, d.ccLearning
	return s
}

// HarnessNEShape: a history from the REAL initial state whose event kinds are concrete per run (SHAPE, base 32:
// 0..5 toggle note key k, 8..18 toggle action key a) while configuration, collision mode, defaults and the witness
// stay symbolic. Every step is checked with the same oracle as the inductive step, the ghost pre-state being read
// from the device. This guards the inductive argument against state that is not part of the harness's invariant
// (e.g. a flag added by a change): such state starts from its real initial value here.
func HarnessNEShape() {
	c := buildNEConfig()
	out := make(chan midi.Event, 1024)
	sigs := make(chan os.Signal, 8)
	d := newTestDevice(c.cfg, out, sigs)
	wch, wn := verifrt.U8("w.ch"), verifrt.U8("w.note")
	verifrt.Assume(wch <= 15 && wn <= 127)
	st0 := d.State()
	verifrt.Assert(st0.Octave == c.defOct && st0.Semitone == c.defSemi && st0.Channel == c.defCh-1 && d.mapping == c.defMap, "C04: the configured defaults are the initial state")
	shape := verifrt.Param("SHAPE", 0)
	n := verifrt.Param("L", 4)
	ghost := &neState{}
	sounding := false
	for i := 0; i < n; i++ {
		v := shape % 32
		shape /= 32
		s := readState(&d, c, ghost)
		var kind uint8
		var idx int
		var press bool
		var code evdev.EvCode
		if v < 8 {
			kind, idx = 0, v
			verifrt.Assume(idx < c.K)
			press = !s.held[idx]
			code = noteCodes[idx]
		} else {
			kind, idx = 1, v-8
			press = !s.aheld[idx]
			code = actionCodes[idx]
		}
		// C04's assumption: no third action while a complete pair is held
		pairHeld := (s.atr[aOctUp] && s.atr[aOctDown]) || (s.atr[aSemiUp] && s.atr[aSemiDown]) ||
			(s.atr[aChUp] && s.atr[aChDown]) || (s.atr[aMapUp] && s.atr[aMapDown])
		verifrt.Assume(!(kind == 1 && press && pairHeld))
		sounding = neStep(c, &d, out, sigs, s, wch, wn, sounding, kind, idx, press, code)
		ghost = s
	}
	verifrt.Cover("NE: end of shaped history")
}

func init() {
	VerifHarnesses["HarnessNEIgnored"] = HarnessNEIgnored
}

// HarnessNEIgnored: events that carry no press or release — the kernel's auto-repeat of a held key (value 2) and
// events of other types (EV_SYN, EV_MSC, EV_REL ... with arbitrary code and value) — arrive in an ARBITRARY
// invariant state: nothing is sent, no signal is raised and the playing state (trackers, pressed-key set, holder
// counters, transposition, channel, mapping) is exactly as before, so every per-step rule and invariant of the
// other harnesses is unaffected by them (C02 silent events, C14 pressed-key set, C01/C03 invariants).
func HarnessNEIgnored() {
	c := buildNEConfig()
	out := make(chan midi.Event, 256)
	sigs := make(chan os.Signal, 4)
	d := newTestDevice(c.cfg, out, sigs)
	s := havocState(&d, c)
	wch, wn := verifrt.U8("w.ch"), verifrt.U8("w.note")
	verifrt.Assume(wch <= 15 && wn <= 127)
	preCnt := d.activeNotesCounter[wch][wn]
	var preTr [maxKeys]bool
	var preV [maxKeys][2]byte
	for k := 0; k < c.K; k++ {
		preV[k], preTr[k] = d.noteTracker[noteCodes[k]]
	}
	preLen, preKeys, preAct := len(d.noteTracker), len(d.keyTracker), len(d.actionTracker)

	var ev *input.InputEvent
	if verifrt.Param("REPEAT", 1) == 1 {
		// auto-repeat of a key that is held (any note, action or unmapped key)
		idx := verifrt.U8("ev.idx")
		code := allCode(idx, c.K)
		heldNow := false
		for k := 0; k < c.K; k++ {
			heldNow = heldNow || (code == noteCodes[k] && s.held[k])
		}
		for a := 0; a < nActions; a++ {
			heldNow = heldNow || (code == actionCodes[a] && s.aheld[a])
		}
		heldNow = heldNow || (code == otherCode && s.oheld)
		verifrt.Assume(heldNow) // the kernel repeats only keys that are down
		ev = keyEvent(code, EV_KEY_REPEAT)
		verifrt.Cover("C14: auto-repeat of a held key")
	} else {
		t := verifrt.U8("ev.type")
		verifrt.Assume(evdev.EvType(t) != evdev.EV_KEY && evdev.EvType(t) != evdev.EV_ABS)
		ev = keyEvent(evdev.EvCode(verifrt.U16("ev.code")), verifrt.I32("ev.value"))
		ev.Event.Type = evdev.EvType(t)
		verifrt.Cover("C02: event of another type")
	}
	d.processEvent(ev)

	verifrt.Assert(len(out) == 0, "C02: key auto-repeat and events of other types emit nothing")
	verifrt.Assert(len(sigs) == 0, "C14: no termination signal from an auto-repeat or an event of another type")
	same := len(d.noteTracker) == preLen && len(d.keyTracker) == preKeys && len(d.actionTracker) == preAct &&
		d.activeNotesCounter[wch][wn] == preCnt &&
		d.octave == s.octave && d.semitone == s.semi && d.channel == s.channel && d.mapping == s.mapping && d.ccLearning == s.learn
	for k := 0; k < c.K; k++ {
		v, tr := d.noteTracker[noteCodes[k]]
		same = same && tr == preTr[k] && (!tr || v == preV[k])
		_, in := d.keyTracker[noteCodes[k]]
		same = same && in == s.held[k]
	}
	for a := 0; a < nActions; a++ {
		_, in := d.keyTracker[actionCodes[a]]
		same = same && in == s.aheld[a]
	}
	_, in := d.keyTracker[otherCode]
	same = same && in == s.oheld
	verifrt.Assert(same, "C14/INVk: key auto-repeat and events of other types leave the pressed-key set and the playing state untouched")
}
