//go:build verif

package device

import (
	"github.com/gethiox/HIDI/internal/pkg/midi"
	"github.com/gethiox/HIDI/internal/pkg/midi/device/config"
	"github.com/gethiox/HIDI/internal/verifrt"
	"github.com/holoplot/go-evdev"
)

// HarnessC04Press: single key press from the state NewDevice builds out of arbitrary defaults:
// full int8 octave/semitone, every base note, every channel x offset, every velocity, all 4 modes.
func HarnessC04Press() {
	octave := verifrt.I8("octave")
	semitone := verifrt.I8("semitone")
	channel := verifrt.U8("channel") // 1..16 as configured
	velocity := verifrt.U8("velocity")
	base := verifrt.U8("base")
	offset := verifrt.U8("offset")
	mode := pickMode(verifrt.U8("mode"))
	verifrt.Assume(channel >= 1 && channel <= 16)
	verifrt.Assume(velocity >= 1 && velocity <= 127)
	verifrt.Assume(base <= 127)
	verifrt.Assume(offset <= 15)

	cfg := config.Config{
		KeyMappings: []config.KeyMapping{{
			Name: "m0",
			Midi: map[string]map[evdev.EvCode]config.Key{"": {evdev.KEY_A: {Note: base, ChannelOffset: offset}}},
		}},
		ActionMapping: map[evdev.EvCode]config.Action{},
		CollisionMode: mode,
		Defaults:      config.Defaults{Octave: int(octave), Semitone: int(semitone), Channel: int(channel), Mapping: 0, Velocity: int(velocity)},
	}
	out := make(chan midi.Event, 16)
	d := newTestDevice(cfg, out, nil)

	s := d.State()
	verifrt.Assert(s.Octave == octave && s.Semitone == semitone && s.Channel == channel-1, "C04: configured defaults are the initial state")

	d.processEvent(keyEvent(evdev.KEY_A, EV_KEY_PRESS))
	n, msgs := drain(out)

	want := int(base) + 12*int(octave) + int(semitone) // 64-bit oracle
	wantCh := (channel - 1 + offset) % 16
	if want < 0 || want > 127 {
		verifrt.Cover("C04: out-of-range pitch")
		verifrt.Assert(n == 0, "C04: pitch outside 0-127 sends nothing")
		return
	}
	verifrt.Cover("C04: in-range pitch")
	verifrt.Assert(n == 1, "C04: exactly one message for an in-range press")
	e := msgs[0]
	verifrt.Assert(len(e) == 3, "C04: three-byte message")
	verifrt.Assert(e[0] == midi.NoteOn|wantCh, "C04: Note On on ((channel-1+offset) mod 16)+1")
	verifrt.Assert(int(e[1]) == want, "C04: pitch = base + 12*octave + semitone")
	verifrt.Assert(e[2] == velocity, "C04: configured velocity")
}
