//go:build verif

package device

import (
	"os"

	"github.com/gethiox/HIDI/internal/pkg/input"
	"github.com/gethiox/HIDI/internal/pkg/midi"
	"github.com/gethiox/HIDI/internal/pkg/midi/device/config"
	"github.com/gethiox/HIDI/internal/verifrt"
	"github.com/holoplot/go-evdev"
)

// VerifHarnesses is the replay table (native builds).
var VerifHarnesses = map[string]func(){}

func init() {
	VerifHarnesses["HarnessC04Press"] = HarnessC04Press
}

const maxKeys = 6

var noteCodes = [maxKeys]evdev.EvCode{evdev.KEY_A, evdev.KEY_S, evdev.KEY_D, evdev.KEY_F, evdev.KEY_G, evdev.KEY_H}

func pickMode(v uint8) config.CollisionMode {
	switch v & 3 {
	case 0:
		return config.CollisionOff
	case 1:
		return config.CollisionNoRepeat
	case 2:
		return config.CollisionInterrupt
	}
	return config.CollisionRetrigger
}

func keyEvent(code evdev.EvCode, value int32) *input.InputEvent {
	return &input.InputEvent{
		Source: input.Handler{Name: ""},
		Event:  evdev.InputEvent{Type: evdev.EV_KEY, Code: code, Value: value},
	}
}

func newTestDevice(cfg config.Config, out chan midi.Event, sigs chan os.Signal) Device {
	return NewDevice(input.Device{}, config.DeviceConfig{Config: cfg}, out, nil, true, 0, sigs)
}

// drain returns up to 4 pending messages and the count.
func drain(out chan midi.Event) (n int, msgs [4]midi.Event) {
	for len(out) > 0 {
		e := <-out
		if n < 4 {
			msgs[n] = e
		}
		n++
	}
	return
}

var _ = verifrt.Assume
