//go:build verif

package device

import (
	"os"

	"github.com/gethiox/HIDI/internal/pkg/input"
	"github.com/gethiox/HIDI/internal/pkg/midi"
	"github.com/gethiox/HIDI/internal/pkg/midi/device/config"
	"github.com/gethiox/HIDI/internal/verifrt"
	"github.com/holoplot/go-evdev"
)

func init() {
	VerifHarnesses["HarnessAXValue"] = HarnessAXValue
	VerifHarnesses["HarnessC08Step"] = HarnessC08Step
	VerifHarnesses["HarnessC08Pair"] = HarnessC08Pair
	VerifHarnesses["HarnessC07Step"] = HarnessC07Step
	VerifHarnesses["HarnessAXPair"] = HarnessAXPair
}

// rat is an exact rational (d > 0); the oracle never touches floating point.
type rat struct{ n, d int64 }

func absI(x int64) int64 {
	if x < 0 {
		return -x
	}
	return x
}

// shapeExact mirrors the documented pipeline in exact arithmetic: normalise by the limit of the side,
// optional centring, deadzone p/100 with rescaling of the remaining travel. Returns the value BEFORE flip.
func shapeExact(raw, min, max int64, dzCenter bool, p int64) (v rat, canNeg bool) {
	limit := absI(max)
	if raw < 0 {
		limit = absI(min)
	}
	v = rat{raw, limit}
	canNeg = min < 0
	if dzCenter {
		v = rat{2*v.n - v.d, v.d}
		canNeg = true
	}
	if absI(v.n)*100 < p*v.d {
		return rat{0, 1}, canNeg
	}
	if v.n < 0 {
		return rat{v.n*100 + p*v.d, v.d * (100 - p)}, canNeg
	}
	return rat{v.n*100 - p*v.d, v.d * (100 - p)}, canNeg
}

func flipExact(v rat, canNeg, flip bool) rat {
	if !flip {
		return v
	}
	if canNeg {
		return rat{-v.n, v.d}
	}
	return rat{v.d - v.n, v.d}
}

// floorDiv for d > 0
func floorDiv(n, d int64) int64 {
	q := n / d
	if n%d != 0 && n < 0 {
		q--
	}
	return q
}

const (
	axCCUni = iota
	axCCBi
	axPitchBend
)

// expectedScaled returns floor of the exact scaled value and whether it is an exact integer, as a signed
// position: uni CC 0..127, bidirectional CC -127..127 (negative = the negative controller), pitch bend 0..16383.
func expectedScaled(kind int, v rat, canNeg bool) (fl int64, exact bool) {
	var n, d int64
	switch kind {
	case axCCUni:
		if canNeg { // 127*(v+1)/2
			n, d = 127*(v.n+v.d), 2*v.d
		} else {
			n, d = 127*v.n, v.d
		}
	case axCCBi:
		if canNeg {
			n, d = 127*v.n, v.d
		} else { // 127*(2v-1)
			n, d = 127*(2*v.n-v.d), v.d
		}
	default:
		x := v
		if !canNeg {
			x = rat{2*v.n - v.d, v.d}
		}
		if x.n >= 0 {
			n, d = 8192*x.d+8191*x.n, x.d
		} else {
			n, d = 8192*x.d+8192*x.n, x.d
		}
	}
	return floorDiv(n, d), n%d == 0
}

type axSetup struct {
	kind           int
	min, max       int64
	p              int64
	flip, dzCenter bool
	cc, ccNeg      uint8
	off, offNeg    uint8
	code           evdev.EvCode
	sub            string
	dev            Device
	out            chan midi.Event
}

func axRange(r int) (int64, int64) {
	switch r {
	case 0:
		return 0, 255
	case 1:
		return -128, 127
	case 2:
		return -32768, 32767
	case 3:
		return 0, 65535
	}
	return -1, 1
}

// buildAX creates a device with one analog axis (ABS_X) of the given kind whose options are symbolic.
func buildAX(kind int) *axSetup {
	a := &axSetup{kind: kind, code: evdev.ABS_X}
	a.min, a.max = axRange(verifrt.Param("RANGE", 0))
	a.p = int64(verifrt.Param("DZ", 5))
	a.flip = verifrt.Bool("ax.flip")
	a.dzCenter = verifrt.Bool("ax.dzcenter")
	if f := verifrt.Param("FLIP", -1); f >= 0 {
		a.flip = f == 1
	}
	if f := verifrt.Param("DZC", -1); f >= 0 {
		a.dzCenter = f == 1
	}
	verifrt.Assume(!a.dzCenter || a.min == 0) // as the property states: only on axes with min 0
	a.cc, a.ccNeg = verifrt.U8("ax.cc"), verifrt.U8("ax.ccneg")
	a.off, a.offNeg = verifrt.U8("ax.off"), verifrt.U8("ax.offneg")
	verifrt.Assume(a.cc <= 119 && a.ccNeg <= 119 && a.cc != a.ccNeg && a.off <= 15 && a.offNeg <= 15)
	dz := float64(a.p) / 100
	an := config.Analog{FlipAxis: a.flip, DeadzoneAtCenter: a.dzCenter, ChannelOffset: a.off, ChannelOffsetNeg: a.offNeg}
	switch kind {
	case axCCUni:
		an.MappingType, an.CC = config.AnalogCC, a.cc
	case axCCBi:
		an.MappingType, an.CC, an.CCNeg, an.Bidirectional = config.AnalogCC, a.cc, a.ccNeg, true
	default:
		an.MappingType = config.AnalogPitchBend
	}
	// deadzone source: specific entry, per-handler default, or global default
	src := verifrt.U8("ax.dzsource") % 3
	if f := verifrt.Param("SRC", -1); f >= 0 {
		src = uint8(f)
	}
	a.sub = "x"
	km := config.KeyMapping{
		Name:            "m0",
		Midi:            map[string]map[evdev.EvCode]config.Key{},
		Analog:          map[string]map[evdev.EvCode]config.Analog{a.sub: {a.code: an}},
		Deadzones:       map[string]map[evdev.EvCode]float64{},
		DefaultDeadzone: map[string]float64{},
	}
	switch src {
	case 0:
		km.Deadzones[a.sub] = map[evdev.EvCode]float64{a.code: dz}
		km.DefaultDeadzone[a.sub] = 0.77
		km.DefaultDeadzone[""] = 0.66
	case 1:
		km.Deadzones[a.sub] = map[evdev.EvCode]float64{}
		km.DefaultDeadzone[a.sub] = dz
		km.DefaultDeadzone[""] = 0.66
	default:
		// the sub-handler has no default of its own: the global default ("") applies
		km.DefaultDeadzone[""] = dz
	}
	cfg := config.Config{
		KeyMappings:   []config.KeyMapping{km},
		ActionMapping: map[evdev.EvCode]config.Action{},
		CollisionMode: config.CollisionOff,
		Defaults:      config.Defaults{Channel: 1, Velocity: 64},
	}
	a.out = make(chan midi.Event, 64)
	idev := input.Device{AbsInfos: map[string]map[evdev.EvCode]evdev.AbsInfo{"": {a.code: {Minimum: int32(a.min), Maximum: int32(a.max)}}}}
	a.dev = NewDevice(idev, config.DeviceConfig{Config: cfg}, a.out, nil, true, 0, make(chan os.Signal, 1))
	ch := verifrt.U8("ax.channel")
	verifrt.Assume(ch <= 15)
	a.dev.channel = ch
	return a
}

func absEvent(sub string, code evdev.EvCode, v int32) *input.InputEvent {
	return &input.InputEvent{Source: input.Handler{Name: sub}, Event: evdev.InputEvent{Type: evdev.EV_ABS, Code: code, Value: v}}
}

// readPosition drains the messages of one axis event and decodes them into the signed position.
// ok=false: nothing sent. wf=false: malformed / unexpected messages.
func (a *axSetup) readPosition() (sent bool, pos int64, wf bool, zeroedOther bool) {
	n, msgs := drain(a.out)
	if n == 0 {
		return false, 0, true, false
	}
	chPos := (a.dev.channel + a.off) % 16
	chNeg := (a.dev.channel + a.offNeg) % 16
	e := msgs[0]
	if !wellFormed(e) {
		return true, 0, false, false
	}
	switch a.kind {
	case axCCUni:
		return true, int64(e[2]), n == 1 && e[0] == midi.ControlChange|chPos && e[1] == a.cc, false
	case axPitchBend:
		return true, int64(e[1]) | int64(e[2])<<7, n == 1 && e[0] == midi.PitchWheelChange|chPos, false
	}
	// bidirectional: value on one controller, optionally followed by an explicit 0 on the other
	isPos := e[0] == midi.ControlChange|chPos && e[1] == a.cc
	isNeg := e[0] == midi.ControlChange|chNeg && e[1] == a.ccNeg
	if a.cc == a.ccNeg && chPos == chNeg {
		return true, 0, false, false
	}
	wf = (isPos || isNeg) && n <= 2
	pos = int64(e[2])
	if isNeg && !isPos {
		pos = -pos
	}
	if n == 2 {
		z := msgs[1]
		if isPos {
			zeroedOther = wellFormed(z) && z[0] == midi.ControlChange|chNeg && z[1] == a.ccNeg && z[2] == 0
		} else {
			zeroedOther = wellFormed(z) && z[0] == midi.ControlChange|chPos && z[1] == a.cc && z[2] == 0
		}
		wf = wf && zeroedOther
	}
	return true, pos, wf, zeroedOther
}

// valueOracle checks one transmitted position against the exact transfer function. It is written so that all
// multiplications are by constants (the limit of the side is fixed inside each branch).
func (a *axSetup) valueOracle(raw, pos int64) (within, endOk, deadOk, isEnd, isDead bool) {
	if raw < 0 {
		return a.valueOracleSide(raw, pos, absI(a.min))
	}
	return a.valueOracleSide(raw, pos, absI(a.max))
}

func (a *axSetup) valueOracleSide(raw, pos, limit int64) (within, endOk, deadOk, isEnd, isDead bool) {
	v := rat{raw, limit}
	canNeg := a.min < 0
	if a.dzCenter {
		v = rat{2*v.n - v.d, v.d}
		canNeg = true
	}
	if absI(v.n)*100 < a.p*v.d {
		v = rat{0, 1}
	} else if v.n < 0 {
		v = rat{v.n*100 + a.p*v.d, v.d * (100 - a.p)}
	} else {
		v = rat{v.n*100 - a.p*v.d, v.d * (100 - a.p)}
	}
	isDead = v.n == 0
	f := flipExact(v, canNeg, a.flip)
	n, d := scaledFraction(a.kind, f, canNeg)
	// floor(n/d)-1 <= pos <= floor(n/d)+1  <=>  (pos-1)*d <= n  &&  n < (pos+2)*d   (d > 0 constant)
	within = (pos-1)*d <= n && n < (pos+2)*d
	exactInt := n%d == 0
	isEnd = raw == a.max || raw == a.min
	endOk = !isEnd || !exactInt || pos*d == n
	if exactInt {
		deadOk = !isDead || pos*d == n
	} else {
		deadOk = !isDead || (pos*d <= n && n < (pos+1)*d) || ((pos-1)*d <= n && n < pos*d)
	}
	return
}

// scaledFraction returns the exact scaled value n/d (d > 0) as a signed position: uni CC 0..127, bidirectional
// CC -127..127 (negative = the negative controller), pitch bend 0..16383 with 8192 as centre.
func scaledFraction(kind int, v rat, canNeg bool) (n, d int64) {
	switch kind {
	case axCCUni:
		if canNeg { // 127*(v+1)/2
			return 127 * (v.n + v.d), 2 * v.d
		}
		return 127 * v.n, v.d
	case axCCBi:
		if canNeg {
			return 127 * v.n, v.d
		}
		return 127 * (2*v.n - v.d), v.d
	}
	x := v
	if !canNeg {
		x = rat{2*v.n - v.d, v.d}
	}
	if x.n >= 0 {
		return 8192*x.d + 8191*x.n, x.d
	}
	return 8192*x.d + 8192*x.n, x.d
}

// inDeadzone: the raw position is shaped to exactly 0 (exact arithmetic, constants only).
func (a *axSetup) inDeadzone(raw int64) bool {
	limit := absI(a.max)
	if raw < 0 {
		limit = absI(a.min)
	}
	n, d := raw, limit
	if a.dzCenter {
		n = 2*n - d
	}
	if n == 0 {
		return true
	}
	if raw < 0 {
		return absI(n)*100 < a.p*absI(a.min)
	}
	return absI(n)*100 < a.p*absI(a.max)
}

// HarnessAXValue: ONE position of a CC / pitch-bend axis (the repeat filter is primed with an impossible
// previous value so that every position is transmitted): the value is within one step of the exact rational
// transfer function, exact at the end stops and inside the deadzone.
func HarnessAXValue() {
	kind := verifrt.Param("KIND", 0)
	a := buildAX(kind)
	if kind == axCCBi {
		verifrt.Assume(a.min < 0 || a.dzCenter) // bidirectional needs a centre
	}
	a.dev.lastAnalogValue[a.sub][a.code] = 2.0
	r := verifrt.I32("ax.raw")
	raw := int64(r)
	verifrt.Assume(raw >= a.min && raw <= a.max)
	a.dev.processEvent(absEvent(a.sub, a.code, r))
	sent, pos, wf, _ := a.readPosition()
	verifrt.Assert(sent, "C06: a new position is transmitted")
	verifrt.Assert(wf, "C05/C06: the axis event produced only well-formed messages on its own controller")
	if !sent {
		return
	}
	within, endOk, deadOk, isEnd, isDead := a.valueOracle(raw, pos)
	verifrt.Assert(within, "C06: transmitted value within one step of the exact scaled position")
	verifrt.Assert(endOk, "C06: physical end stops map exactly to the ends of the range")
	verifrt.Assert(deadOk, "C06: positions inside the deadzone transmit exactly the rest value")
	if isEnd {
		verifrt.Cover("C06: end stop")
	}
	if isDead {
		// an unsigned axis split at mid-travel has no position exactly at the centre when its maximum is odd and
		// the deadzone is 0: no vacuity guard there
		if !(a.kind == axCCBi && a.min == 0 && a.p == 0 && a.max%2 == 1) {
			verifrt.Cover("C06: inside the deadzone")
		}
	}
}

// HarnessAXPair: two consecutive positions from the real initial state: a position is transmitted iff its
// shaped value differs from the previous one (the shaping is injective outside the deadzone), and two
// transmitted values are ordered like the raw positions (reversed when flipped).
func HarnessAXPair() {
	kind := verifrt.Param("KIND", 0)
	a := buildAX(kind)
	if kind == axCCBi {
		verifrt.Assume(a.min < 0 || a.dzCenter)
	}
	var raws [2]int64
	var sents [2]bool
	var poss [2]int64
	var dead [2]bool
	for i := 0; i < 2; i++ {
		r := verifrt.I32(verifrt.N("ax.raw", i))
		raws[i] = int64(r)
		verifrt.Assume(raws[i] >= a.min && raws[i] <= a.max)
		a.dev.processEvent(absEvent(a.sub, a.code, r))
		sent, pos, wf, _ := a.readPosition()
		sents[i], poss[i] = sent, pos
		dead[i] = a.inDeadzone(raws[i])
		verifrt.Assert(wf, "C05/C06: the axis event produced only well-formed messages on its own controller")
	}
	verifrt.Assert(sents[0] == !dead[0], "C06: the first position is transmitted iff it is outside the deadzone (rest is the initial state)")
	same := (dead[0] && dead[1]) || (!dead[0] && !dead[1] && raws[0] == raws[1])
	verifrt.Assert(sents[1] == !same, "C06: a position is transmitted iff its shaped value differs from the previous position's")
	if sents[0] && sents[1] {
		verifrt.Cover("C06: two transmitted positions")
		up := raws[0] <= raws[1]
		if a.flip {
			up = !up
		}
		if up {
			verifrt.Assert(poss[0] <= poss[1], "C06: transmitted value is monotonic in the raw position (reversed when flipped)")
		} else {
			verifrt.Assert(poss[0] >= poss[1], "C06: transmitted value is monotonic in the raw position (reversed when flipped)")
		}
	}
}

// sideOf returns the exact flipped shaped position as sign (-1, 0, +1) and whether |v| > 1/2 (strictly, with a
// small guard band: hi = |v| >= 0.501, lo = |v| <= 0.499), all in exact arithmetic with constant multipliers.
func (a *axSetup) sideOf(raw int64) (sign int, hi, lo bool) {
	if raw < 0 {
		return a.sideOfLimit(raw, absI(a.min))
	}
	return a.sideOfLimit(raw, absI(a.max))
}

func (a *axSetup) sideOfLimit(raw, limit int64) (sign int, hi, lo bool) {
	v := rat{raw, limit}
	canNeg := a.min < 0
	if a.dzCenter {
		v = rat{2*v.n - v.d, v.d}
		canNeg = true
	}
	if absI(v.n)*100 < a.p*v.d {
		v = rat{0, 1}
	} else if v.n < 0 {
		v = rat{v.n*100 + a.p*v.d, v.d * (100 - a.p)}
	} else {
		v = rat{v.n*100 - a.p*v.d, v.d * (100 - a.p)}
	}
	f := flipExact(v, canNeg, a.flip)
	if !canNeg {
		// plain unsigned axis: the bidirectional position is 2v-1 (the learning threshold applies to v itself)
		hi = 1000*absI(f.n) >= 501*f.d
		lo = 1000*absI(f.n) <= 499*f.d
		f = rat{2*f.n - f.d, f.d}
	} else {
		hi = 1000*absI(f.n) >= 501*f.d
		lo = 1000*absI(f.n) <= 499*f.d
	}
	switch {
	case f.n > 0:
		sign = 1
	case f.n < 0:
		sign = -1
	}
	return
}

// HarnessC07Step: one position of a bidirectional CC axis from an ARBITRARY state satisfying
//   (I1) a controller marked as zeroed has value 0 at the receiver, (I2) at most one of the pair is non-zero,
// with arbitrary previous position and arbitrary CC-learning flag. The step re-establishes I1/I2, so they hold
// after every event of every history (base: fresh device, receiver controllers at 0).
func HarnessC07Step() {
	a := buildAX(axCCBi)
	// signed axes, unsigned axes centred by deadzone_at_center, and plain unsigned axes whose centre is mid-travel
	d := &a.dev
	zPos, zNeg := verifrt.Bool("pre.zeroed.pos"), verifrt.Bool("pre.zeroed.neg")
	rPos, rNeg := verifrt.U8("pre.recv.pos"), verifrt.U8("pre.recv.neg")
	verifrt.Assume(rPos <= 127 && rNeg <= 127)
	verifrt.Assume(!zPos || rPos == 0)     // I1
	verifrt.Assume(!zNeg || rNeg == 0)     // I1
	verifrt.Assume(rPos == 0 || rNeg == 0) // I2
	if zPos {
		d.ccZeroed[a.cc] = true
	}
	if zNeg {
		d.ccZeroed[a.ccNeg] = true
	}
	d.lastAnalogValue[a.sub][a.code] = verifrt.F64("pre.last")
	learning := verifrt.Bool("pre.learning")
	d.ccLearning = learning

	r := verifrt.I32("ax.raw")
	raw := int64(r)
	verifrt.Assume(raw >= a.min && raw <= a.max)
	d.processEvent(absEvent(a.sub, a.code, r))

	// receiver: apply the messages
	chPos := (d.channel + a.off) % 16
	chNeg := (d.channel + a.offNeg) % 16
	n, msgs := drain(a.out)
	wf := n <= 2
	for i := 0; i < 2; i++ {
		if i >= n {
			continue
		}
		e := msgs[i]
		wf = wf && wellFormed(e)
		if len(e) == 3 && e[0] == midi.ControlChange|chPos && e[1] == a.cc {
			rPos = e[2]
		} else if len(e) == 3 && e[0] == midi.ControlChange|chNeg && e[1] == a.ccNeg {
			rNeg = e[2]
		} else {
			wf = false
		}
	}
	verifrt.Assert(wf, "C05/C07: only well-formed messages on the two controllers of the axis")
	sign, hi, lo := a.sideOf(raw)
	if n > 0 {
		verifrt.Cover("C07: a transmitted position")
		verifrt.Assert(rPos == 0 || rNeg == 0, "C07: after every processed axis event at most one of the two controllers is non-zero")
		verifrt.Assert(!(sign > 0) || rNeg == 0, "C07: the non-zero controller is the side the stick is deflected to")
		verifrt.Assert(!(sign < 0) || rPos == 0, "C07: the non-zero controller is the side the stick is deflected to")
		verifrt.Assert(sign != 0 || (rPos == 0 && rNeg == 0), "C07: at the centre both controllers are zero")
		if learning {
			verifrt.Cover("C07: transmitted while learning")
			verifrt.Assert(!lo, "C07: while CC-learning is held only deflections beyond half travel are transmitted")
		}
	}
	if !learning || hi {
		// a new position that may be transmitted must leave the marks consistent; nothing to assert on suppression
	}
	// invariants
	_, _ = hi, lo
	zp, zn := d.ccZeroed[a.cc], d.ccZeroed[a.ccNeg]
	verifrt.Assert(!zp || rPos == 0, "C07(inv): a controller marked zeroed is 0 at the receiver")
	verifrt.Assert(!zn || rNeg == 0, "C07(inv): a controller marked zeroed is 0 at the receiver")
	verifrt.Assert(rPos == 0 || rNeg == 0, "C07(inv): at most one controller of the pair is non-zero")
}

// ---------------------------------------------------------------------------------------------
// C08: key-emulating axis

type ksSetup struct {
	min, max       int64
	p              int64
	flip, dzCenter bool
	hasNeg         bool
	note, noteNeg  uint8
	off, offNeg    uint8
	code           evdev.EvCode
	dev            Device
	out            chan midi.Event
}

// buildKS creates a device with one key-emulating axis whose Analog entry is what the parser produces for a
// symbolic TOML entry (note, optional note_negative, offsets, flip, deadzone_at_center).
func buildKS() *ksSetup {
	k := &ksSetup{code: evdev.ABS_HAT0X}
	k.min, k.max = axRange(verifrt.Param("RANGE", 4))
	k.p = int64(verifrt.Param("DZ", 0))
	k.flip = verifrt.Bool("ks.flip")
	k.dzCenter = verifrt.Bool("ks.dzcenter")
	if f := verifrt.Param("FLIP", -1); f >= 0 {
		k.flip = f == 1
	}
	verifrt.Assume(!k.dzCenter || k.min == 0)
	k.hasNeg = verifrt.Bool("ks.hasneg")
	k.note, k.noteNeg = verifrt.U8("ks.note"), verifrt.U8("ks.noteneg")
	k.off, k.offNeg = verifrt.U8("ks.off"), verifrt.U8("ks.offneg")
	verifrt.Assume(k.note <= 127 && k.noteNeg <= 127 && k.off <= 15 && k.offNeg <= 15)
	an := config.Analog{MappingType: config.AnalogKeySim, Note: k.note, ChannelOffset: k.off, ChannelOffsetNeg: k.offNeg,
		FlipAxis: k.flip, DeadzoneAtCenter: k.dzCenter}
	if k.hasNeg {
		an.NoteNeg, an.Bidirectional = k.noteNeg, true
	}
	km := config.KeyMapping{
		Name:            "m0",
		Midi:            map[string]map[evdev.EvCode]config.Key{},
		Analog:          map[string]map[evdev.EvCode]config.Analog{"": {k.code: an}},
		Deadzones:       map[string]map[evdev.EvCode]float64{"": {k.code: float64(k.p) / 100}},
		DefaultDeadzone: map[string]float64{"": 0},
	}
	cfg := config.Config{KeyMappings: []config.KeyMapping{km}, ActionMapping: map[evdev.EvCode]config.Action{},
		CollisionMode: config.CollisionOff, Defaults: config.Defaults{Channel: 1, Velocity: 100}}
	k.out = make(chan midi.Event, 64)
	idev := input.Device{AbsInfos: map[string]map[evdev.EvCode]evdev.AbsInfo{"": {k.code: {Minimum: int32(k.min), Maximum: int32(k.max)}}}}
	k.dev = NewDevice(idev, config.DeviceConfig{Config: cfg}, k.out, nil, true, 0, make(chan os.Signal, 1))
	return k
}

// zone classifies the exact (flipped, centred) position: +1 on (>= 0.501), -1 on negative (<= -0.501),
// 0 off (|x| <= 0.489), +-3 the hold band between 49 % and 50 % (0.491 <= |x| <= 0.499), 2 = inside the guard
// bands right at the thresholds (unconstrained).
func (k *ksSetup) zone(raw int64) int {
	if raw < 0 {
		return k.zoneLimit(raw, absI(k.min))
	}
	return k.zoneLimit(raw, absI(k.max))
}

func (k *ksSetup) zoneLimit(raw, limit int64) int {
	v := rat{raw, limit}
	canNeg := k.min < 0
	if k.dzCenter {
		v = rat{2*v.n - v.d, v.d}
		canNeg = true
	}
	if absI(v.n)*100 < k.p*v.d {
		v = rat{0, 1}
	} else if v.n < 0 {
		v = rat{v.n*100 + k.p*v.d, v.d * (100 - k.p)}
	} else {
		v = rat{v.n*100 - k.p*v.d, v.d * (100 - k.p)}
	}
	f := flipExact(v, canNeg, k.flip)
	if !canNeg {
		f = rat{2*f.n - f.d, f.d}
	}
	switch {
	case 1000*f.n >= 501*f.d:
		return 1
	case 1000*f.n <= -501*f.d:
		return -1
	case 1000*absI(f.n) <= 489*f.d:
		return 0
	case 1000*f.n >= 491*f.d && 1000*f.n <= 499*f.d:
		return 3 // hold band of the positive direction (between 49 % and 50 %)
	case 1000*f.n <= -491*f.d && 1000*f.n >= -499*f.d:
		return -3
	}
	return 2
}

func (k *ksSetup) resolveDir(neg bool, octave, semi int8, channel uint8) (ok bool, note, ch uint8) {
	base, off := k.note, k.off
	if neg {
		if !k.hasNeg {
			return false, 0, 0
		}
		base, off = k.noteNeg, k.offNeg
	}
	n := int(base) + 12*int(octave) + int(semi)
	if n < 0 || n > 127 {
		return false, 0, 0
	}
	return true, uint8(n), (channel + off) % 16
}

const ksID, ksIDNeg = "16", "16_neg" // fmt.Sprintf("%d", ABS_HAT0X)

// HarnessC08Step: one position (always processed: the repeat filter is primed with an impossible value) from an
// ARBITRARY state in which at most one direction is sounding, with arbitrary transposition and channel.
func HarnessC08Step() {
	k := buildKS()
	d := &k.dev
	onPos, onNeg := verifrt.Bool("pre.on.pos"), verifrt.Bool("pre.on.neg")
	verifrt.Assume(!(onPos && onNeg)) // invariant: never both
	tn, tc := verifrt.U8("pre.tnote"), verifrt.U8("pre.tch")
	verifrt.Assume(tn <= 127 && tc <= 15)
	if onPos {
		d.analogNoteTracker[ksID] = [2]byte{tn, tc}
	}
	if onNeg {
		verifrt.Assume(k.hasNeg) // a direction without a configured note never started a note
		d.analogNoteTracker[ksIDNeg] = [2]byte{tn, tc}
	}
	d.octave, d.semitone, d.channel = verifrt.I8("pre.octave"), verifrt.I8("pre.semitone"), verifrt.U8("pre.channel")
	verifrt.Assume(d.channel <= 15)
	d.lastAnalogValue[""][k.code] = 2.0
	r := verifrt.I32("ks.raw")
	raw := int64(r)
	verifrt.Assume(raw >= k.min && raw <= k.max)
	z := k.zone(raw)
	verifrt.Assume(z != 2)
	oct, semi, chn := d.octave, d.semitone, d.channel
	d.processEvent(absEvent("", k.code, r))
	n, msgs := drain(k.out)
	allWF := n <= 2
	for i := 0; i < 2 && i < n; i++ {
		allWF = allWF && wellFormed(msgs[i])
	}
	verifrt.Assert(allWF, "C05/C08: only well-formed messages")
	pv, pOn := d.analogNoteTracker[ksID]
	nv, nOn := d.analogNoteTracker[ksIDNeg]
	verifrt.Assert(!(pOn && nOn), "C08: the two directions never sound together")
	off := midi.NoteEvent(midi.NoteOff, tc, tn, 0)
	switch z {
	case 3, -3:
		// between 49 % and 50 %: a note sounding in this direction keeps sounding, a silent axis stays silent
		same := (z > 0 && onPos) || (z < 0 && onNeg)
		if same {
			if k.max-k.min > 200 { // the 1 % band holds no position of a coarse axis
				verifrt.Cover("C08: inside the hold band with the note on")
			}
			stillOn := (z > 0 && pOn && pv == [2]byte{tn, tc}) || (z < 0 && nOn && nv == [2]byte{tn, tc})
			verifrt.Assert(n == 0 && stillOn, "C08: a note stays on while deflection is between 49 % and 50 % of travel (it goes off only below 49 %)")
		} else if !onPos && !onNeg {
			verifrt.Assert(n == 0 && !pOn && !nOn, "C08: below half travel nothing is turned on")
		}
	case 0:
		verifrt.Cover("C08: back to centre")
		verifrt.Assert(!pOn && !nOn, "C08: below 49% of travel nothing stays on")
		if onPos || onNeg {
			verifrt.Assert(n == 1 && sameEvent(msgs[0], off), "C08: returning to centre sends exactly the Note Off matching the Note On that was sent")
		} else {
			verifrt.Assert(n == 0, "C08: nothing to release, nothing sent")
		}
	case 1, -1:
		neg := z < 0
		wasOn, otherOn := onPos, onNeg
		if neg {
			wasOn, otherOn = onNeg, onPos
		}
		ok, note, ch := k.resolveDir(neg, oct, semi, chn)
		exp := 0
		var want [2]midi.Event
		if !wasOn && ok {
			want[exp] = midi.NoteEvent(midi.NoteOn, ch, note, 64)
			exp++
		}
		if otherOn {
			want[exp] = off
			exp++
		}
		verifrt.Cover("C08: deflected beyond half travel")
		verifrt.Assert(n == exp, "C08: reaching half travel turns the note of that direction on once, and the other direction off")
		for i := 0; i < 2; i++ {
			if i < exp && i < n {
				verifrt.Assert(sameEvent(msgs[i], want[i]), "C08: Note On = configured note of the direction transposed (velocity 64, channel rule); Note Off = the Note On that was sent")
			}
		}
		cur, curOn := pv, pOn
		if neg {
			cur, curOn = nv, nOn
		}
		if wasOn {
			verifrt.Assert(curOn && cur[0] == tn && cur[1] == tc, "C08: a direction that is already on keeps its note")
		} else if ok {
			verifrt.Assert(curOn && cur[0] == note && cur[1] == ch, "C08: the Note On that was sent is what will be released")
		} else {
			verifrt.Cover("C08: silent direction")
			verifrt.Assert(!curOn, "C08: a direction without a configured (or in-range) note stays silent")
		}
	}
}

// shapedZero: the raw position is shaped to exactly 0 before the flip (constants only).
func (k *ksSetup) shapedZero(raw int64) bool {
	limit := absI(k.max)
	if raw < 0 {
		limit = absI(k.min)
	}
	n := raw
	if k.dzCenter {
		n = 2*n - limit
	}
	if n == 0 {
		return true
	}
	if raw < 0 {
		return absI(n)*100 < k.p*absI(k.min)
	}
	return absI(n)*100 < k.p*absI(k.max)
}

// HarnessC08Pair: two consecutive positions from the real initial state (direct jumps between directions
// included, flipped or not). Reference: a position is acted upon iff its shaped value differs from the previous
// one (the initial previous value is the rest position); an acted-upon position switches the directions as the
// property describes.
func HarnessC08Pair() {
	k := buildKS()
	d := &k.dev
	okPos, _, _ := k.resolveDir(false, 0, 0, 0)
	okNeg, _, _ := k.resolveDir(true, 0, 0, 0)
	refPos, refNeg := false, false
	prevDead, prevRaw := true, int64(0)
	var acted [2]bool
	var ns [2]int
	var zs [2]int
	for i := 0; i < 2; i++ {
		r := verifrt.I32(verifrt.N("ks.raw", i))
		raw := int64(r)
		verifrt.Assume(raw >= k.min && raw <= k.max)
		z := k.zone(raw)
		verifrt.Assume(z != 2 && z != 3 && z != -3) // the hold band is the step harness's subject
		zs[i] = z
		dead := k.shapedZero(raw)
		same := (dead && prevDead) || (!dead && !prevDead && raw == prevRaw && i > 0)
		acted[i] = !same
		prevDead, prevRaw = dead, raw
		if acted[i] {
			switch z {
			case 0:
				refPos, refNeg = false, false
			case 1:
				refPos, refNeg = refPos || okPos, false
			case -1:
				refPos, refNeg = false, refNeg || okNeg
			}
		}
		wasPos := func() bool { _, on := d.analogNoteTracker[ksID]; return on }()
		d.processEvent(absEvent("", k.code, r))
		n, _ := drain(k.out)
		ns[i] = n
		_, pOn := d.analogNoteTracker[ksID]
		_, nOn := d.analogNoteTracker[ksIDNeg]
		verifrt.Assert(pOn == refPos && nOn == refNeg, "C08: after every position exactly the note of the deflected direction (if configured) is on")
		if i == 1 && acted[1] && zs[1] == -1 && wasPos {
			verifrt.Cover("C08: direct jump between directions")
			verifrt.Assert(n >= 1, "C08: a direct jump to the other direction releases the note that was on")
		}
	}
	verifrt.Cover("C08: two positions")
}

// ---------------------------------------------------------------------------------------------
// C01 for key-emulating axes across a mapping switch

func init() {
	VerifHarnesses["HarnessAXMapSwitch"] = HarnessAXMapSwitch
}

// HarnessAXMapSwitch: a hat axis emulating keys in the first mapping; the second mapping maps the same axis to
// nothing, to a controller, or to (other) notes. History: axis position, mapping_up pressed and released, axis
// position, [disconnect]. Whenever the axis is back at the centre and no key is held nothing may be sounding.
func HarnessAXMapSwitch() {
	var code evdev.EvCode = evdev.ABS_HAT0X
	note, note2 := verifrt.U8("note"), verifrt.U8("note2")
	verifrt.Assume(note <= 127 && note2 <= 127)
	second := verifrt.U8("second.kind") % 4 // 0 axis unmapped, 1 controller, 2 same notes, 3 other notes
	m0 := config.KeyMapping{Name: "m0", Midi: map[string]map[evdev.EvCode]config.Key{},
		Analog:          map[string]map[evdev.EvCode]config.Analog{"": {code: {MappingType: config.AnalogKeySim, Note: note, NoteNeg: note2, Bidirectional: true}}},
		Deadzones:       map[string]map[evdev.EvCode]float64{},
		DefaultDeadzone: map[string]float64{"": 0}}
	m1 := config.KeyMapping{Name: "m1", Midi: map[string]map[evdev.EvCode]config.Key{},
		Analog:          map[string]map[evdev.EvCode]config.Analog{"": {}},
		Deadzones:       map[string]map[evdev.EvCode]float64{},
		DefaultDeadzone: map[string]float64{"": 0}}
	switch second {
	case 1:
		m1.Analog[""][code] = config.Analog{MappingType: config.AnalogCC, CC: 20, CCNeg: 21, Bidirectional: true}
	case 2:
		m1.Analog[""][code] = config.Analog{MappingType: config.AnalogKeySim, Note: note, NoteNeg: note2, Bidirectional: true}
	case 3:
		m1.Analog[""][code] = config.Analog{MappingType: config.AnalogKeySim, Note: note2, NoteNeg: note, Bidirectional: true}
	}
	cfg := config.Config{KeyMappings: []config.KeyMapping{m0, m1},
		ActionMapping: map[evdev.EvCode]config.Action{evdev.KEY_F7: config.MappingUp},
		CollisionMode: config.CollisionOff, Defaults: config.Defaults{Channel: 1, Velocity: 64}}
	out := make(chan midi.Event, 64)
	idev := input.Device{AbsInfos: map[string]map[evdev.EvCode]evdev.AbsInfo{"": {code: {Minimum: -1, Maximum: 1}}}}
	d := NewDevice(idev, config.DeviceConfig{Config: cfg}, out, nil, true, 0, make(chan os.Signal, 1))
	wn := verifrt.U8("w.note")
	verifrt.Assume(wn <= 127)
	sounding := false
	step := func(ev *input.InputEvent) {
		d.processEvent(ev)
		for len(out) > 0 {
			sounding = applyToReceiver(sounding, <-out, 0, wn)
		}
	}
	r0, r1 := verifrt.I8("raw0"), verifrt.I8("raw1")
	verifrt.Assume(r0 >= -1 && r0 <= 1 && r1 >= -1 && r1 <= 1)
	step(absEvent("", code, int32(r0)))
	switched := verifrt.Bool("switch")
	if switched {
		step(keyEvent(evdev.KEY_F7, EV_KEY_PRESS))
		step(keyEvent(evdev.KEY_F7, EV_KEY_RELEASE))
	}
	step(absEvent("", code, int32(r1)))
	if r1 == 0 {
		verifrt.Cover("C01: axis back at centre")
		verifrt.Assert(!sounding, "C01: nothing is sounding when no key and no key-emulating axis is held")
	}
	in := make(chan *input.InputEvent)
	close(in)
	d.ProcessEvents(in)
	for len(out) > 0 {
		sounding = applyToReceiver(sounding, <-out, 0, wn)
	}
	verifrt.Assert(!sounding, "C01: disconnect releases every note that is still sounding")
}

// ---------------------------------------------------------------------------------------------
// C05/C06: one device, two event nodes carrying the same axis code with different ranges

func init() {
	VerifHarnesses["HarnessAXTwoNodes"] = HarnessAXTwoNodes
}

// HarnessAXTwoNodes: a multi-node device (a stick node reporting ABS_X in 0..255 and a touchpad node reporting
// ABS_X in 0..1919, each mapped to its own controller). An arbitrary position from one node, then an arbitrary
// position from the other (either order): every message is well-formed and each transmitted value is the
// position scaled with the range of the node it came from (within one step, exact at the end stops).
func HarnessAXTwoNodes() {
	type node struct {
		sub, event string
		max        int64
		cc         uint8
	}
	nodes := [2]node{{"", "event0", 255, 20}, {"Touchpad", "event1", 1919, 21}}
	km := config.KeyMapping{
		Name: "m0",
		Midi: map[string]map[evdev.EvCode]config.Key{},
		Analog: map[string]map[evdev.EvCode]config.Analog{
			"":         {evdev.ABS_X: {MappingType: config.AnalogCC, CC: 20}},
			"Touchpad": {evdev.ABS_X: {MappingType: config.AnalogCC, CC: 21}},
		},
		Deadzones:       map[string]map[evdev.EvCode]float64{},
		DefaultDeadzone: map[string]float64{"": 0},
	}
	cfg := config.Config{KeyMappings: []config.KeyMapping{km}, ActionMapping: map[evdev.EvCode]config.Action{},
		CollisionMode: config.CollisionOff, Defaults: config.Defaults{Channel: 1, Velocity: 64}}
	out := make(chan midi.Event, 16)
	idev := input.Device{AbsInfos: map[string]map[evdev.EvCode]evdev.AbsInfo{
		"event0": {evdev.ABS_X: {Minimum: 0, Maximum: 255}},
		"event1": {evdev.ABS_X: {Minimum: 0, Maximum: 1919}},
	}}
	d := NewDevice(idev, config.DeviceConfig{Config: cfg}, out, nil, true, 0, make(chan os.Signal, 1))
	first := 0
	if verifrt.Bool("first.is.touchpad") {
		first = 1
	}
	for step := 0; step < 2; step++ {
		nd := nodes[(first+step)%2]
		r := verifrt.I32(verifrt.N("raw", step))
		raw := int64(r)
		verifrt.Assume(raw >= 0 && raw <= nd.max)
		ev := absEvent(nd.sub, evdev.ABS_X, r)
		ev.Source.DeviceInfo = input.VerifDeviceInfo("pad", nd.event)
		d.processEvent(ev)
		n, msgs := drain(out)
		verifrt.Assert(n <= 1, "C05/C06: one axis position produces at most one message")
		if n == 1 {
			e := msgs[0]
			verifrt.Assert(wellFormed(e), "C05: every message of a multi-node device is a well-formed 3-byte message")
			ok := len(e) == 3 && e[0] == midi.ControlChange && e[1] == nd.cc
			verifrt.Assert(ok, "C06: the position is sent on the controller mapped for the node it came from")
			if ok {
				pos := int64(e[2])
				// exact value 127*raw/max: within one step, exact at the end stop
				verifrt.Assert((pos-1)*nd.max <= 127*raw && 127*raw < (pos+2)*nd.max, "C06: transmitted value within one step of the exact scaled position (range of the node the event came from)")
				if raw == nd.max {
					verifrt.Assert(pos == 127, "C06: physical end stops map exactly to the ends of the range")
				}
				verifrt.Cover("C06: a position of a multi-node device transmitted")
			}
		}
	}
}
