//go:build verif

package device

import (
	"context"
	"os"
	"sync"

	"github.com/gethiox/HIDI/internal/pkg/input"
	"github.com/gethiox/HIDI/internal/pkg/midi"
	"github.com/gethiox/HIDI/internal/pkg/midi/device/config"
	"github.com/gethiox/HIDI/internal/verifrt"
)

func init() {
	VerifHarnesses["HarnessC17MidiIn"] = HarnessC17MidiIn
}

// HarnessC17MidiIn: the real MIDI-input tracking goroutine fed with an arbitrary short message sequence, with the
// panic action in between: the set of externally sounding notes the LED loop reads (under its mutex) is exactly
// what a receiver would consider sounding: Note On (velocity > 0) sets, Note Off and Note On with velocity 0 clear,
// panic clears everything.
func HarnessC17MidiIn() {
	verifrt.Enable("concurrent")
	k := verifrt.Param("K", 14)
	n := verifrt.Param("N", 3)
	out := make(chan midi.Event, 512)
	midiIn := make(chan midi.Event)
	d := NewDevice(input.Device{}, config.DeviceConfig{Config: c16Config()}, out, midiIn, true, 0, make(chan os.Signal, 1))
	ctx, cancel := context.WithCancel(context.Background())
	wg := sync.WaitGroup{}
	wg.Add(1)
	go d.handleInputEvents(ctx, &wg)

	// reference: two witness notes on two channels
	type msg struct {
		kind uint8 // 0 Note On, 1 Note Off, 2 Note On velocity 0, 3 control change, 4 panic action
		ch   uint8
		note uint8
	}
	var seq [4]msg
	var sounding [2][2]bool // [channel index][note index]
	chans := [2]uint8{0, 5}
	notes := [2]uint8{60, 64}
	for i := 0; i < n; i++ {
		// the message sequence is concrete per run (SEQ in base 5, CHN bits: channel and note index per message);
		// the schedule of the two goroutines is the symbolic part
		kinds, chn := verifrt.Param("SEQ", 0), verifrt.Param("CHN", 0)
		for j := 0; j < i; j++ {
			kinds /= 5
			chn /= 4
		}
		seq[i] = msg{kind: uint8(kinds % 5), ch: uint8(chn % 2), note: uint8((chn / 2) % 2)}
		switch seq[i].kind {
		case 0:
			sounding[seq[i].ch][seq[i].note] = true
		case 1, 2:
			sounding[seq[i].ch][seq[i].note] = false
		case 4:
			sounding = [2][2]bool{}
		}
	}
	// velocities are arbitrary: a Note On sounds with any velocity 1..127, a Note Off clears with any release velocity
	onVel, offVel := verifrt.U8("c17.onvel"), verifrt.U8("c17.offvel")
	verifrt.Assume(onVel >= 1 && onVel <= 127 && offVel <= 127)
	fed := false
	go func() {
		for i := 0; i < n; i++ {
			m := seq[i]
			ch, note := chans[m.ch], notes[m.note]
			switch m.kind {
			case 0:
				midiIn <- midi.NoteEvent(midi.NoteOn, ch, note, onVel)
			case 1:
				midiIn <- midi.NoteEvent(midi.NoteOff, ch, note, offVel)
			case 2:
				midiIn <- midi.NoteEvent(midi.NoteOn, ch, note, 0)
			case 3:
				midiIn <- midi.ControlChangeEvent(ch, 7, 100)
			default:
				// panic comes from the key-processing goroutine, not through the MIDI-in channel: make sure the
				// previous message has been processed (hand over an ignored message first), otherwise the order of
				// the two is simply not determined
				midiIn <- midi.ControlChangeEvent(0, 7, 2)
				d.Panic()
			}
		}
		// the hand-over of one more (ignored) message guarantees that the previous one has been processed
		midiIn <- midi.ControlChangeEvent(0, 7, 1)
		fed = true
	}()
	verifrt.RunConcurrent(k, nil)
	if fed {
		verifrt.Cover("C17: all MIDI-input messages processed")
		d.externalTrackerMutex.Lock()
		for c := 0; c < 2; c++ {
			for x := 0; x < 2; x++ {
				got := d.externalNoteTracker[chans[c]][notes[x]]
				verifrt.Assert(got == sounding[c][x], "C17: the external highlight set is exactly the notes sounding on MIDI input (Note Off, Note On velocity 0 and panic clear it)")
			}
		}
		d.externalTrackerMutex.Unlock()
	}
	cancel()
}
