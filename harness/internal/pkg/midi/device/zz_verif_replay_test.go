//go:build verif

package device

import (
	"fmt"
	"os"
	"os/exec"
	"strings"
	"syscall"
	"testing"

	"github.com/gethiox/HIDI/internal/pkg/logger"
	"github.com/gethiox/HIDI/internal/verifrt"
)

// needsSysfs: harnesses that run the real LED loop need /sys/class/hidraw/hidraw0/device/input/input0/event0;
// the test re-executes itself in a private mount namespace (root required) and mounts a tmpfs there.
func needsSysfs() bool {
	return strings.HasPrefix(verifrt.HarnessName(), "HarnessC17Led") || strings.HasPrefix(verifrt.HarnessName(), "HarnessC16Led")
}

func TestVerifReplay(t *testing.T) {
	if needsSysfs() && os.Getenv("VERIF_IN_NS") == "" {
		cmd := exec.Command("unshare", "-m", os.Args[0], "-test.run", "^TestVerifReplay$", "-test.timeout", "60s", "-test.v")
		cmd.Env = append(os.Environ(), "VERIF_IN_NS=1")
		out, err := cmd.CombinedOutput()
		fmt.Print(string(out))
		if err != nil {
			t.Fail()
		}
		return
	}
	if needsSysfs() {
		if err := syscall.Mount("tmpfs", "/sys/class", "tmpfs", 0, ""); err != nil {
			fmt.Println("REPLAY-RESULT kind=error msg=cannot mount tmpfs over /sys/class:", err)
			return
		}
		if err := os.MkdirAll("/sys/class/hidraw/hidraw0/device/input/input0/event0", 0o755); err != nil {
			fmt.Println("REPLAY-RESULT kind=error msg=cannot create fake sysfs tree:", err)
			return
		}
	}
	go func() {
		for range logger.Messages {
		}
	}()
	line, failed := verifrt.Run(VerifHarnesses)
	fmt.Println(line)
	if failed {
		t.Fail()
	}
}
