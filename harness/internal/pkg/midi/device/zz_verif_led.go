//go:build verif

package device

import (
	"context"
	"encoding/binary"
	"io"
	"net"
	"os"
	"sync"
	"time"

	"github.com/gethiox/HIDI/internal/pkg/input"
	"github.com/gethiox/HIDI/internal/pkg/midi"
	"github.com/gethiox/HIDI/internal/pkg/midi/device/config"
	"github.com/gethiox/HIDI/internal/verifrt"
	"github.com/holoplot/go-evdev"
	"github.com/lucasb-eyer/go-colorful"
	"github.com/realbucksavage/openrgb-go"
)

func init() {
	VerifHarnesses["HarnessC17Led"] = HarnessC17Led
	VerifHarnesses["HarnessC16Led"] = HarnessC16Led
}

// ---- native only: a minimal OpenRGB server (controller count, controller data, UpdateLEDs) ----

func orgbString(s string) []byte {
	b := make([]byte, 2, 3+len(s))
	binary.LittleEndian.PutUint16(b, uint16(len(s)+1))
	return append(append(b, s...), 0)
}

func orgbDeviceBlob(dev *openrgb.Device) []byte {
	b := make([]byte, 8)
	binary.LittleEndian.PutUint32(b[4:], dev.Type)
	for _, s := range []string{dev.Name, dev.Description, dev.Version, dev.Serial, dev.Location} {
		b = append(b, orgbString(s)...)
	}
	b = append(b, 0, 0)       // mode count
	b = append(b, 0, 0, 0, 0) // active mode
	b = append(b, 0, 0)       // zone count
	n := make([]byte, 2)
	binary.LittleEndian.PutUint16(n, uint16(len(dev.LEDs)))
	b = append(b, n...)
	for _, l := range dev.LEDs {
		b = append(b, orgbString(l.Name)...)
		b = append(b, l.Value.Red, l.Value.Green, l.Value.Blue, 0)
	}
	binary.LittleEndian.PutUint16(n, uint16(len(dev.Colors)))
	b = append(b, n...)
	for _, c := range dev.Colors {
		b = append(b, c.Red, c.Green, c.Blue, 0)
	}
	binary.LittleEndian.PutUint32(b, uint32(len(b)))
	return b
}

func orgbServe(ln net.Listener, dev *openrgb.Device, capture *verifrt.LedCapture, cancel func()) {
	orgbServeDrop(ln, dev, capture, cancel, 0)
}

// orgbServeDrop: as orgbServe; with dropAfter > 0 the server does not cancel anything and goes away (closes the
// connection) after that many frames, so that later LED updates fail.
func orgbServeDrop(ln net.Listener, dev *openrgb.Device, capture *verifrt.LedCapture, cancel func(), dropAfter int) {
	conn, err := ln.Accept()
	if err != nil {
		return
	}
	defer conn.Close()
	reply := func(cmd uint32, payload []byte) {
		h := append([]byte("ORGB"), make([]byte, 12)...)
		binary.LittleEndian.PutUint32(h[8:], cmd)
		binary.LittleEndian.PutUint32(h[12:], uint32(len(payload)))
		conn.Write(h)
		conn.Write(payload)
	}
	for {
		h := make([]byte, 16)
		if _, err := io.ReadFull(conn, h); err != nil {
			return
		}
		cmd, ln := binary.LittleEndian.Uint32(h[8:]), binary.LittleEndian.Uint32(h[12:])
		p := make([]byte, ln)
		if _, err := io.ReadFull(conn, p); err != nil {
			return
		}
		switch cmd {
		case 0:
			reply(0, []byte{1, 0, 0, 0})
		case 1:
			reply(1, orgbDeviceBlob(dev))
		case 1050:
			if len(p) >= 6 {
				cnt := int(p[4])
				var frame []openrgb.Color
				for i := 0; i < cnt && 6+i*4+2 < len(p); i++ {
					frame = append(frame, openrgb.Color{Red: p[6+i*4], Green: p[6+i*4+1], Blue: p[6+i*4+2]})
				}
				if capture.N < len(capture.Frames) {
					capture.Frames[capture.N] = frame
				}
				capture.Last = frame
				capture.N++
				if dropAfter > 0 {
					if capture.N >= dropAfter {
						return
					}
				} else if capture.N == 1 {
					cancel()
				}
			}
		}
	}
}

// ---- the harness ----

var ledKeys = [3]evdev.EvCode{evdev.KEY_A, evdev.KEY_S, evdev.KEY_D}

func sameColor(a, b openrgb.Color) bool { return a.Red == b.Red && a.Green == b.Green && a.Blue == b.Blue }

func chanColor(ch int) openrgb.Color {
	var h = 720/16*float64(ch) + 30
	if h >= 360 {
		h -= 360
	}
	c := colorful.Hsv(h, 1, 1)
	return openrgb.Color{Red: byte(c.R * 255), Green: byte(c.G * 255), Blue: byte(c.B * 255)}
}

// HarnessC17Led: the real LED loop of handleOpenrgb for one refresh cycle in an arbitrary device state
// (transposition, channel, mapping, one held keyboard note, MIDI-input notes on two channels), against a
// controller whose LED order is arbitrary: every LED must show what the property says; after the loop ends all
// LEDs are red.
func HarnessC17Led() {
	verifrt.Enable("led")
	colors := config.Colors{White: openrgb.Color{Red: 200, Green: 200, Blue: 200}, Black: openrgb.Color{Red: 10, Green: 10, Blue: 40},
		C: openrgb.Color{Red: 0, Green: 200, Blue: 0}, Unavailable: openrgb.Color{Red: 3, Green: 3, Blue: 3},
		Active: openrgb.Color{Red: 250, Green: 120, Blue: 0}, ActiveExternal: openrgb.Color{Red: 1, Green: 2, Blue: 250}}
	var notes [3]uint8
	keys := map[evdev.EvCode]config.Key{}
	keys2 := map[evdev.EvCode]config.Key{}
	for i := 0; i < 3; i++ {
		notes[i] = verifrt.U8(verifrt.N("cfg.note", i))
		verifrt.Assume(notes[i] <= 127)
		keys[ledKeys[i]] = config.Key{Note: notes[i]}
		keys2[ledKeys[i]] = config.Key{Note: notes[i]}
	}
	actions := map[evdev.EvCode]config.Action{evdev.KEY_ESC: config.Panic, evdev.KEY_F1: config.OctaveUp, evdev.KEY_F2: config.OctaveDown,
		evdev.KEY_F3: config.SemitoneUp, evdev.KEY_F4: config.SemitoneDown, evdev.KEY_F5: config.MappingUp, evdev.KEY_F6: config.MappingDown,
		evdev.KEY_F7: config.ChannelUp, evdev.KEY_F8: config.ChannelDown, evdev.KEY_F9: config.Multinote}
	// NOACT: bit mask (same numbering as the LED names) of action keys that the configuration leaves unmapped
	noact := verifrt.Param("NOACT", 0)
	actKeys := map[int]evdev.EvCode{0: evdev.KEY_ESC, 4: evdev.KEY_F1, 5: evdev.KEY_F2, 6: evdev.KEY_F3, 7: evdev.KEY_F4, 8: evdev.KEY_F5,
		9: evdev.KEY_F6, 10: evdev.KEY_F7, 11: evdev.KEY_F8, 12: evdev.KEY_F9}
	for i := 0; i < 14; i++ {
		if noact&(1<<uint(i)) != 0 {
			delete(actions, actKeys[i])
		}
	}
	cfg := config.Config{
		KeyMappings: []config.KeyMapping{
			{Name: "Piano", Midi: map[string]map[evdev.EvCode]config.Key{"": keys}},
			{Name: "Second", Midi: map[string]map[evdev.EvCode]config.Key{"": keys2}}},
		ActionMapping: actions, CollisionMode: config.CollisionOff,
		Defaults: config.Defaults{Channel: 1, Velocity: 64}, OpenRGB: config.OpenRGB{Colors: colors}}
	// the controller: 14 LEDs, rotated by ROT (so LED indices differ from the order of the name table); one LED has a name the table does not know
	names := [14]string{"Key: Escape", "Key: A", "Key: S", "Key: D", "Key: F1", "Key: F2", "Key: F3", "Key: F4", "Key: F5", "Key: F6", "Key: F7", "Key: F8", "Key: F9", "Logo"}
	rot := verifrt.Param("ROT", 0) % 14 // concrete per run
	dev := openrgb.Device{Type: 5, Name: "Verif Keyboard", Location: "HID: /dev/hidraw0"}
	// DROP: bit mask of keys that have no LED on this controller (their LED carries an unknown name instead)
	drop := verifrt.Param("DROP", 0)
	for i := 0; i < 14; i++ {
		if drop&(1<<uint(i)) != 0 {
			names[i] = "Spare"
		}
	}
	for i := 0; i < 14; i++ {
		dev.LEDs = append(dev.LEDs, openrgb.LED{Name: names[(i+rot)%14]})
		dev.Colors = append(dev.Colors, openrgb.Color{})
	}
	var capture verifrt.LedCapture
	ctx, cancel := context.WithCancel(context.Background())
	verifrt.RegisterLED(&dev, &capture, cancel)
	port := 0
	if !verifrt.Symbolic() {
		ln, err := net.Listen("tcp", "127.0.0.1:0")
		if err != nil {
			panic(err)
		}
		defer ln.Close()
		port = ln.Addr().(*net.TCPAddr).Port
		go orgbServe(ln, &dev, &capture, cancel)
	}
	idev := input.Device{Handlers: []input.Handler{{DeviceInfo: input.VerifDeviceInfo("kbd", "event0")}}}
	out := make(chan midi.Event, 16)
	d := NewDevice(idev, config.DeviceConfig{Config: cfg}, out, nil, true, port, make(chan os.Signal, 1))
	// arbitrary state
	d.octave, d.semitone = verifrt.I8("st.octave"), verifrt.I8("st.semitone")
	verifrt.Assume(d.octave >= -3 && d.octave <= 3 && d.semitone >= -3 && d.semitone <= 3)
	// CH < 0: arbitrary current channel; otherwise concrete. EXT MIDI-input notes (arbitrary pitch, present or not)
	// on the concrete channels XCH0, XCH1.
	if ch := verifrt.Param("CH", -1); ch >= 0 {
		d.channel = uint8(ch % 16)
	} else {
		d.channel = verifrt.U8("st.channel")
		verifrt.Assume(d.channel <= 15)
	}
	d.mapping = int(verifrt.U8("st.mapping") % 2)
	heldNote, heldOn := verifrt.U8("st.held.note"), verifrt.Bool("st.held.on")
	verifrt.Assume(heldNote <= 127)
	// the held note may have been started on another channel (channel changed or channel offset): it still sounds
	heldCh := verifrt.U8("st.held.channel")
	verifrt.Assume(heldCh <= 15)
	if heldOn {
		d.noteTracker[evdev.KEY_A] = [2]byte{heldNote, heldCh}
	}
	var extCh [2]uint8
	var extNote [2]uint8
	var extOn [2]bool
	for i := 0; i < verifrt.Param("EXT", 0) && i < 2; i++ {
		extCh[i] = uint8(verifrt.Param(verifrt.N("XCH", i), 0) % 16)
		extNote[i], extOn[i] = verifrt.U8(verifrt.N("ext.note", i)), verifrt.Bool(verifrt.N("ext.on", i))
		verifrt.Assume(extNote[i] <= 127)
		if extOn[i] {
			d.externalNoteTracker[extCh[i]][extNote[i]] = true
		}
	}
	offset := int(d.semitone) + int(d.octave)*12

	wg := sync.WaitGroup{}
	wg.Add(1)
	d.handleOpenrgb(ctx, &wg)

	if !verifrt.Symbolic() {
		// the last frame travels over TCP: give the fake server a moment to record it
		for i, seen := 0, -1; i < 100 && (capture.N < 2 || capture.N != seen); i++ {
			seen = capture.N
			time.Sleep(20 * time.Millisecond)
		}
	}
	verifrt.Assert(capture.N >= 2, "C17: a state frame and a final frame are sent")
	if capture.N < 2 {
		return
	}
	frame, last := capture.Frames[0], capture.Last
	verifrt.Assert(len(frame) == 14 && len(last) == 14, "C17: every frame covers all LEDs of the controller")
	if len(frame) != 14 || len(last) != 14 {
		return
	}
	white1 := openrgb.Color{Red: 27, Green: 27, Blue: 27}
	white2 := openrgb.Color{Red: 100, Green: 100, Blue: 100}
	white3 := openrgb.Color{Red: 255, Green: 255, Blue: 255}
	level := func(v int8, up bool) openrgb.Color {
		if !up {
			v = -v
		}
		switch {
		case v <= 0:
			return white1
		case v == 1:
			return white2
		}
		return white3
	}
	w := int(verifrt.U8("w.led"))
	verifrt.Assume(w < 14)
	name := (w + rot) % 14 // which of `names` LED w carries
	got := frame[w]
	verifrt.Assert(sameColor(last[w], openrgb.Color{Red: 0xff}), "C17: on disconnect all LEDs turn red")
	var cc openrgb.Color
	for c := 0; c < 16; c++ {
		if int(d.channel) == c {
			cc = chanColor(c)
		}
	}
	dim := openrgb.Color{Red: cc.Red / 3, Green: cc.Green / 3, Blue: cc.Blue / 3}
	switch {
	case drop&(1<<uint(name)) != 0 || noact&(1<<uint(name)) != 0:
		verifrt.Assert(sameColor(got, colors.Unavailable), "C17: LEDs without a function show the 'unavailable' colour")
	case name >= 1 && name <= 3: // a mapped note key
		k := name - 1
		x := int(notes[k]) + offset
		if x < 0 || x > 127 {
			if drop&14 == 0 { // vacuity guards only where every note key has an LED
				verifrt.Cover("C17: mapped key out of range")
			}
			verifrt.Assert(sameColor(got, colors.Unavailable), "C17: a mapped key whose pitch is out of MIDI range shows the 'unavailable' colour")
			break
		}
		var base openrgb.Color
		switch x % 12 {
		case 0:
			base = shiftColor(colors.C, 0)
		case 1, 3, 6, 8, 10:
			base = shiftColor(colors.Black, 0)
		default:
			base = shiftColor(colors.White, 0)
		}
		fromKeyboard := heldOn && int(heldNote) == x
		onCurrent := false
		onOther := false
		matchesOther := false
		for i := 0; i < 2; i++ {
			if extOn[i] && int(extNote[i]) == x {
				if extCh[i] == d.channel {
					onCurrent = true
				} else {
					onOther = true
					for c := 0; c < 16; c++ {
						if int(extCh[i]) == c && sameColor(got, chanColor(c)) {
							matchesOther = true
						}
					}
				}
			}
		}
		switch {
		case fromKeyboard:
			if drop&14 == 0 {
				verifrt.Cover("C17: key at a pitch sounding from the keyboard")
			}
			verifrt.Assert(sameColor(got, colors.Active), "C17: keys at pitches sounding from the keyboard show the active colour")
		case onCurrent:
			verifrt.Cover("C17: pitch sounding on MIDI input, current channel")
			verifrt.Assert(sameColor(got, colors.ActiveExternal), "C17: pitches sounding on MIDI input on the current channel show the external colour")
		case onOther:
			verifrt.Cover("C17: pitch sounding on MIDI input, other channel")
			verifrt.Assert(matchesOther, "C17: pitches sounding on MIDI input on another channel show that channel's colour")
		default:
			verifrt.Assert(sameColor(got, base), "C17: each mapped key shows its pitch-class colour for the current mapping and transposition")
		}
	case name == 0:
		verifrt.Assert(sameColor(got, openrgb.Color{Red: 0xff}), "C17: the panic key is red")
	case name == 4:
		verifrt.Assert(sameColor(got, level(d.octave, true)), "C17: the octave keys reflect the current octave")
	case name == 5:
		verifrt.Assert(sameColor(got, level(d.octave, false)), "C17: the octave keys reflect the current octave")
	case name == 6:
		verifrt.Assert(sameColor(got, level(d.semitone, true)), "C17: the semitone keys reflect the current semitone")
	case name == 7:
		verifrt.Assert(sameColor(got, level(d.semitone, false)), "C17: the semitone keys reflect the current semitone")
	case name == 8:
		want := white3
		if d.mapping == 1 {
			want = white1
		}
		verifrt.Assert(sameColor(got, want), "C17: the mapping keys reflect the position in the mapping list")
	case name == 9:
		want := white3
		if d.mapping == 0 {
			want = white1
		}
		verifrt.Assert(sameColor(got, want), "C17: the mapping keys reflect the position in the mapping list")
	case name == 10:
		want := cc
		if d.channel == 15 {
			want = dim
		}
		verifrt.Assert(sameColor(got, want), "C17: the channel keys show the current channel's colour (dimmed at the end of the range)")
	case name == 11:
		want := cc
		if d.channel == 0 {
			want = dim
		}
		verifrt.Assert(sameColor(got, want), "C17: the channel keys show the current channel's colour (dimmed at the end of the range)")
	case name == 12:
		verifrt.Assert(sameColor(got, white1), "C17: the multinote key is lit")
	default:
		verifrt.Assert(sameColor(got, colors.Unavailable), "C17: LEDs without a function show the 'unavailable' colour")
	}
}

// HarnessC16Led: the LED goroutine of a device for FRAMES refresh cycles in which any update may fail (the server
// went away) at arbitrary instants of a non-decreasing clock; then the context is cancelled. The loop must end
// (it may not block on the device mutex it took itself) and must leave the device mutex free, so that events and
// the disconnect clean-up can proceed. Symbolically the loop runs as the only goroutine with lock tracking;
// natively it runs as a goroutine against a fake server that drops the connection after the first frame.
func HarnessC16Led() {
	verifrt.Enable("led")
	verifrt.Enable("led.fail")
	verifrt.Enable("clock")
	verifrt.Enable("locks")
	keys := map[evdev.EvCode]config.Key{evdev.KEY_A: {Note: 60}}
	cfg := config.Config{
		KeyMappings:   []config.KeyMapping{{Name: "Piano", Midi: map[string]map[evdev.EvCode]config.Key{"": keys}}},
		ActionMapping: map[evdev.EvCode]config.Action{evdev.KEY_ESC: config.Panic}, CollisionMode: config.CollisionOff,
		Defaults: config.Defaults{Channel: 1, Velocity: 64}}
	dev := openrgb.Device{Type: 5, Name: "Verif Keyboard", Location: "HID: /dev/hidraw0"}
	for _, n := range []string{"Key: A", "Key: Escape", "Logo"} {
		dev.LEDs = append(dev.LEDs, openrgb.LED{Name: n})
		dev.Colors = append(dev.Colors, openrgb.Color{})
	}
	var capture verifrt.LedCapture
	ctx, cancel := context.WithCancel(context.Background())
	verifrt.RegisterLED(&dev, &capture, cancel)
	port := 0
	if !verifrt.Symbolic() {
		ln, err := net.Listen("tcp", "127.0.0.1:0")
		if err != nil {
			panic(err)
		}
		defer ln.Close()
		port = ln.Addr().(*net.TCPAddr).Port
		go orgbServeDrop(ln, &dev, &capture, cancel, 1)
	}
	idev := input.Device{Handlers: []input.Handler{{DeviceInfo: input.VerifDeviceInfo("kbd", "event0")}}}
	capOut := 512
	if !verifrt.Symbolic() {
		capOut = 4 // natively a slow output keeps the panic action busy for a while (as a hardware MIDI port does)
	}
	out := make(chan midi.Event, capOut)
	d := NewDevice(idev, config.DeviceConfig{Config: cfg}, out, nil, true, port, make(chan os.Signal, 1))
	wg := sync.WaitGroup{}
	wg.Add(1)
	returned := false
	if verifrt.Symbolic() {
		d.handleOpenrgb(ctx, &wg)
		returned = true
		// the event goroutine's panic action takes the same two mutexes: with lock tracking on, taking them in the
		// opposite order than the LED loop did is reported (the two run concurrently in the application)
		d.processEvent(keyEvent(evdev.KEY_ESC, EV_KEY_PRESS))
		d.processEvent(keyEvent(evdev.KEY_ESC, EV_KEY_RELEASE))
	} else {
		go func() {
			d.handleOpenrgb(ctx, &wg)
			returned = true
		}()
		// natively the event goroutine presses panic while the LED loop runs (its 129 messages are drained)
		go func() {
			for !returned {
				select {
				case <-out:
					time.Sleep(200 * time.Microsecond)
				default:
					time.Sleep(time.Millisecond)
				}
			}
		}()
		go func() {
			for i := 0; i < 40 && !returned; i++ {
				d.processEvent(keyEvent(evdev.KEY_ESC, EV_KEY_PRESS))
				d.processEvent(keyEvent(evdev.KEY_ESC, EV_KEY_RELEASE))
				time.Sleep(7 * time.Millisecond)
			}
		}()
		// let the loop run into the dead connection for a while, then disconnect
		for i := 0; i < 150 && capture.N < 1; i++ { // the first connection attempt is made after 250 ms
			time.Sleep(10 * time.Millisecond)
		}
		time.Sleep(300 * time.Millisecond)
		cancel()
		for i := 0; i < 100 && !returned; i++ {
			time.Sleep(20 * time.Millisecond)
		}
	}
	verifrt.Cover("C16: LED loop ended")
	verifrt.Assert(returned, "C16: the LED goroutine ends once its context is cancelled, whatever update failures occurred")
	if returned {
		verifrt.Assert(d.eventProcessMutex.TryLock(), "C16: the LED goroutine leaves the device mutex free")
	}
}
