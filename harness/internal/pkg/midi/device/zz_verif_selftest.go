//go:build verif

package device

import (
	"github.com/gethiox/HIDI/internal/pkg/midi"
	"github.com/gethiox/HIDI/internal/pkg/midi/device/config"
	"github.com/gethiox/HIDI/internal/verifrt"
	"github.com/holoplot/go-evdev"
)

func init() {
	VerifHarnesses["HarnessSelfTestDevice"] = HarnessSelfTestDevice
}

// HarnessSelfTestDevice validates the encoder, not the code: the input vectors and expected outputs of the
// repository's own device tests (TestCollisionOff / NoRepeat / Interrupt / Retrigger, TestChannelOffset in
// device_test.go) are pushed through the symbolic executor with concrete values. The real code passes these tests
// natively, so any reachable assertion here is an error of the SSA->SMT translation or of a stub.
func HarnessSelfTestDevice() {
	type msg [3]byte
	on := func(ch, note, vel byte) msg { return msg{midi.NoteOn | ch, note, vel} }
	off := func(ch, note byte) msg { return msg{midi.NoteOff | ch, note, 0} }
	run := func(name string, mode config.CollisionMode, offB byte, actions map[evdev.EvCode]config.Action, evs []*struct {
		code  evdev.EvCode
		value int32
	}, want []msg) {
		cfg := config.Config{
			KeyMappings: []config.KeyMapping{{Name: "Default", Midi: map[string]map[evdev.EvCode]config.Key{"": {
				evdev.KEY_A: {Note: 0, ChannelOffset: 0},
				evdev.KEY_B: {Note: 0, ChannelOffset: offB},
			}}, Analog: map[string]map[evdev.EvCode]config.Analog{}}},
			ActionMapping: actions, ExitSequence: []evdev.EvCode{}, CollisionMode: mode,
			Defaults: config.Defaults{Channel: 1, Velocity: 64},
		}
		out := make(chan midi.Event, 64)
		d := newTestDevice(cfg, out, nil)
		for _, e := range evs {
			d.processEvent(keyEvent(e.code, e.value))
		}
		n := 0
		for len(out) > 0 {
			m := <-out
			ok := n < len(want) && len(m) == 3 && m[0] == want[n][0] && m[1] == want[n][1] && m[2] == want[n][2]
			verifrt.Assert(ok, "SELFTEST "+name+": every message equals the one the repository's test expects")
			n++
		}
		verifrt.Assert(n == len(want), "SELFTEST "+name+": the number of messages equals the one the repository's test expects")
	}
	type ev = struct {
		code  evdev.EvCode
		value int32
	}
	abab := []*ev{{evdev.KEY_A, 1}, {evdev.KEY_B, 1}, {evdev.KEY_A, 0}, {evdev.KEY_B, 0}}
	none := map[evdev.EvCode]config.Action{}
	run("TestCollisionOff", config.CollisionOff, 0, none, abab, []msg{on(0, 0, 64), on(0, 0, 64), off(0, 0), off(0, 0)})
	run("TestCollisionNoRepeat", config.CollisionNoRepeat, 0, none, abab, []msg{on(0, 0, 64), off(0, 0)})
	run("TestCollisionInterrupt", config.CollisionInterrupt, 0, none, abab, []msg{on(0, 0, 64), off(0, 0), on(0, 0, 64), off(0, 0)})
	run("TestCollisionRetrigger", config.CollisionRetrigger, 0, none, abab, []msg{on(0, 0, 64), on(0, 0, 64), off(0, 0)})
	chn := map[evdev.EvCode]config.Action{evdev.KEY_F1: config.ChannelDown, evdev.KEY_F2: config.ChannelUp}
	run("TestChannelOffset", config.CollisionOff, 4, chn,
		[]*ev{{evdev.KEY_A, 1}, {evdev.KEY_A, 0}, {evdev.KEY_B, 1}, {evdev.KEY_B, 0}, {evdev.KEY_F2, 1}, {evdev.KEY_F2, 0},
			{evdev.KEY_A, 1}, {evdev.KEY_A, 0}, {evdev.KEY_B, 1}, {evdev.KEY_B, 0}},
		[]msg{on(0, 0, 64), off(0, 0), on(4, 0, 64), off(4, 0), on(1, 0, 64), off(1, 0), on(5, 0, 64), off(5, 0)})
	verifrt.Cover("SELFTEST: device test vectors executed")
}
