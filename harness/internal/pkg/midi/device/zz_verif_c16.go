//go:build verif

package device

import (
	"os"

	"github.com/gethiox/HIDI/internal/pkg/input"
	"github.com/gethiox/HIDI/internal/pkg/midi"
	"github.com/gethiox/HIDI/internal/pkg/midi/device/config"
	"github.com/gethiox/HIDI/internal/verifrt"
	"github.com/holoplot/go-evdev"
)

func init() {
	VerifHarnesses["HarnessC16Lifecycle"] = HarnessC16Lifecycle
	VerifHarnesses["HarnessC16CrossTalk"] = HarnessC16CrossTalk
}

func c16Config() config.Config {
	return config.Config{
		KeyMappings: []config.KeyMapping{{
			Name: "m0",
			Midi: map[string]map[evdev.EvCode]config.Key{"": {evdev.KEY_A: {Note: 60}, evdev.KEY_S: {Note: 62, ChannelOffset: 1}}},
		}},
		ActionMapping: map[evdev.EvCode]config.Action{evdev.KEY_F1: config.OctaveUp, evdev.KEY_ESC: config.Panic},
		CollisionMode: config.CollisionInterrupt,
		Defaults:      config.Defaults{Channel: 1, Velocity: 64},
	}
}

// HarnessC16Lifecycle: the real ProcessEvents with its two background goroutines (LED feedback without a server,
// MIDI-input tracking) under every schedule: a short key history (keys possibly still held at the end), MIDI input
// arriving at any moment, then the event stream ends. Processing must end, nothing may be left running, every
// touch of the playing state must happen under the device's mutex, held notes must be released.
func HarnessC16Lifecycle() {
	verifrt.Enable("concurrent")
	for attempt := 0; attempt < verifrt.Attempts(); attempt++ {
		c16Scenario()
	}
}

func c16Scenario() {
	k := verifrt.Param("K", 16)
	nEv := verifrt.Param("L", 2)
	withPanic := verifrt.Param("PANIC", 0) == 1
	out := make(chan midi.Event, 4)
	if withPanic {
		// the panic action emits 129 messages: a roomy output, so that none of its sends is a scheduling point
		out = make(chan midi.Event, 512)
	}
	midiIn := make(chan midi.Event, 2)
	d := NewDevice(input.Device{}, config.DeviceConfig{Config: c16Config()}, out, midiIn, true, 0, make(chan os.Signal, 1))
	verifrt.Protect(d.noteTracker, d.eventProcessMutex)
	verifrt.Protect(d.analogNoteTracker, d.eventProcessMutex)
	verifrt.Protect(d.keyTracker, d.eventProcessMutex)
	verifrt.Protect(d.actionTracker, d.eventProcessMutex)
	verifrt.Protect(d.activeNotesCounter, d.eventProcessMutex)
	for ch := byte(0); ch < 16; ch++ {
		verifrt.Protect(d.activeNotesCounter[ch], d.eventProcessMutex)
	}
	// the MIDI-input highlight set is written by the MIDI-input goroutine and replaced by the panic action of the
	// event goroutine: every access needs its mutex
	verifrt.ProtectRW(d.externalNoteTracker, d.externalTrackerMutex)
	for ch := byte(0); ch < 16; ch++ {
		verifrt.ProtectRW(d.externalNoteTracker[ch], d.externalTrackerMutex)
	}
	in := make(chan *input.InputEvent, 4)
	held := [2]bool{}
	codes := [2]evdev.EvCode{evdev.KEY_A, evdev.KEY_S}
	seq := verifrt.Param("SEQ", 0) // bit i: which key event i toggles (the key history is concrete per run)
	for i := 0; i < nEv; i++ {
		which := (seq >> i) & 1
		press := !held[which]
		held[which] = press
		in <- keyEvent(codes[which], boolToVal(press))
	}
	if withPanic {
		in <- keyEvent(evdev.KEY_ESC, EV_KEY_PRESS) // the panic action, then the stream ends
	}
	close(in)
	finished := false
	violated := false
	emittedAtEnd := 0
	if !verifrt.Symbolic() {
		// native stand-in for the symbolic lock-discipline check: while this goroutine holds the device mutex (as
		// the LED loop does for a whole refresh cycle) the playing state must not change
		go func() {
			for !finished {
				d.eventProcessMutex.Lock()
				n1 := len(d.noteTracker) + d.activeNotesCounter[0][60] + d.activeNotesCounter[1][62]
				verifrt.Jitter()
				n2 := len(d.noteTracker) + d.activeNotesCounter[0][60] + d.activeNotesCounter[1][62]
				if n1 != n2 {
					violated = true
				}
				d.eventProcessMutex.Unlock()
			}
		}()
	}
	go func() {
		verifrt.Jitter()
		d.ProcessEvents(in)
		emittedAtEnd = len(out)
		finished = true
	}()
	if verifrt.Param("MIDIIN", 0) == 1 {
		go func() {
			verifrt.Jitter()
			midiIn <- midi.NoteEvent(midi.NoteOn, 3, 64, 100)
		}()
		if !verifrt.Symbolic() {
			// native stand-in for the other writer of the highlight set (what the panic action does: replace it
			// under its mutex), so that an unsynchronised access of the MIDI-input goroutine becomes a data race
			// the race detector can see
			go func() {
				for i := 0; i < 50 && !finished; i++ {
					fresh := make(map[byte]map[byte]bool, 16)
					for ch := byte(0); ch < 16; ch++ {
						fresh[ch] = make(map[byte]bool)
					}
					d.externalTrackerMutex.Lock()
					d.externalNoteTracker = fresh
					d.externalTrackerMutex.Unlock()
					verifrt.Jitter()
				}
			}()
		}
	}
	verifrt.RunConcurrent(k, nil)
	quiet := !verifrt.AnyEnabled() || !verifrt.Symbolic()
	verifrt.Assert(!violated, "C16: device state is only modified while holding its mutex")
	if quiet {
		verifrt.Cover("C16: quiescent")
		verifrt.Assert(finished, "C16: processing for a device ends once its event stream ends")
		verifrt.Assert(!verifrt.Live("handleOpenrgb") && !verifrt.Live("handleInputEvents"), "C16: no background activity is left behind")
		if withPanic {
			verifrt.Assert(len(out) == emittedAtEnd, "C16: nothing is emitted after processing for the device has ended (no background activity left behind)")
			verifrt.Assert(!verifrt.Live("Device)."), "C16: no goroutine is left inside device code after processing has ended")
			return
		}
		// everything that was switched on has been switched off again
		on := [2]int{}
		for len(out) > 0 {
			e := <-out
			for j := 0; j < 2; j++ {
				note := byte(60)
				ch := byte(0)
				if j == 1 {
					note, ch = 62, 1
				}
				if isNote(e, midi.NoteOn, ch, note) {
					on[j]++
				}
				if isNote(e, midi.NoteOff, ch, note) {
					on[j]--
				}
			}
		}
		verifrt.Assert(on[0] == 0 && on[1] == 0, "C01/C16: disconnect releases held notes whatever the background goroutines were doing")
	}
}

// HarnessC16CrossTalk: two devices created from the same configuration value; an arbitrary key event on the first
// changes neither the second device's state nor its output nor the shared configuration.
func HarnessC16CrossTalk() {
	cfg := c16Config()
	out1, out2 := make(chan midi.Event, 256), make(chan midi.Event, 256)
	d1 := NewDevice(input.Device{}, config.DeviceConfig{Config: cfg}, out1, nil, true, 0, make(chan os.Signal, 1))
	d2 := NewDevice(input.Device{}, config.DeviceConfig{Config: cfg}, out2, nil, true, 0, make(chan os.Signal, 1))
	// bring both into some state
	d2.processEvent(keyEvent(evdev.KEY_A, EV_KEY_PRESS))
	for len(out2) > 0 {
		<-out2
	}
	code := evdev.EvCode(verifrt.U16("ev.code"))
	val := int32(verifrt.U8("ev.value") % 3)
	s2 := d2.State()
	d1.processEvent(keyEvent(code, val))
	verifrt.Assert(len(out2) == 0, "C16: what one device does never changes another device's output")
	verifrt.Assert(d2.State() == s2, "C16: what one device does never changes another device's state")
	v, ok := d2.noteTracker[evdev.KEY_A]
	verifrt.Assert(ok && v[0] == 60 && v[1] == 0 && d2.activeNotesCounter[0][60] == 1, "C16: what one device does never changes another device's held notes")
	kk, ok2 := cfg.KeyMappings[0].Midi[""][evdev.KEY_A]
	verifrt.Assert(ok2 && kk.Note == 60 && cfg.ActionMapping[evdev.KEY_F1] == config.OctaveUp && len(cfg.ActionMapping) == 2, "C16: the shared configuration is never modified")
	verifrt.Cover("C16: cross-talk harness end")
}
