//go:build verif

package config

import (
	"strconv"

	"github.com/gethiox/HIDI/internal/verifrt"
)

// VerifHarnesses is the replay table (native builds).
var VerifHarnesses = map[string]func(){}

func init() {
	VerifHarnesses["HarnessC11Parse"] = HarnessC11Parse
	VerifHarnesses["HarnessC11Roundtrip"] = HarnessC11Roundtrip
}

// refNote is the reference grammar of the 128 note names, written over bytes:
// letter A-G (any case), optional '#' (not after E or B), octave -2..8 ("-0" is not a name), number <= 127.
func refNote(s string) (bool, uint8) {
	n := len(s)
	if n < 2 || n > 4 {
		return false, 0
	}
	c := s[0]
	if c >= 'a' && c <= 'z' {
		c -= 32
	}
	var pitch int
	switch c {
	case 'C':
		pitch = 0
	case 'D':
		pitch = 2
	case 'E':
		pitch = 4
	case 'F':
		pitch = 5
	case 'G':
		pitch = 7
	case 'A':
		pitch = 9
	case 'B':
		pitch = 11
	default:
		return false, 0
	}
	i := 1
	if s[i] == '#' {
		if c == 'E' || c == 'B' {
			return false, 0
		}
		pitch++
		i++
	}
	if i >= n {
		return false, 0
	}
	neg := false
	if s[i] == '-' {
		neg = true
		i++
	}
	if i != n-1 {
		return false, 0
	}
	d := s[i]
	if d < '0' || d > '9' {
		return false, 0
	}
	oct := int(d - '0')
	if neg {
		if oct == 0 {
			return false, 0
		}
		oct = -oct
	}
	if oct < -2 || oct > 8 {
		return false, 0
	}
	num := (oct+2)*12 + pitch
	if num > 127 {
		return false, 0
	}
	return true, uint8(num)
}

// HarnessC11Parse: every string of at most N bytes (all 256 byte values) is accepted iff it is one of the 128
// note names, and then yields the right number.
func HarnessC11Parse() {
	n := verifrt.Param("N", 5)
	s := verifrt.Str("s", n)
	got, err := StringToNote(s)
	ok, want := refNote(s)
	if ok {
		verifrt.Cover("C11: a valid note name")
		verifrt.Assert(err == nil, "C11: every one of the 128 note names is accepted")
		verifrt.Assert(got == want, "C11: an accepted name yields 12*(octave+2)+pitch")
	} else {
		verifrt.Cover("C11: a string that is not a note name")
		verifrt.Assert(err != nil, "C11: every string that is not a note name is rejected")
	}
}

// HarnessC11Roundtrip: number -> name (as the program prints it) -> number is the identity for all 128 numbers,
// in upper and lower case.
func HarnessC11Roundtrip() {
	n := verifrt.U8("n")
	verifrt.Assume(n <= 127)
	name := NoteToPitch(n) + strconv.Itoa(NoteToOctave(n))
	ok, want := refNote(name)
	verifrt.Assert(ok && want == n, "C11: the printed name of a number is a note name of that number")
	got, err := StringToNote(name)
	verifrt.Assert(err == nil && got == n, "C11: number -> name -> number is the identity")
	lower := verifrt.Bool("lower")
	if lower {
		b := []byte(name)
		if b[0] >= 'A' && b[0] <= 'Z' {
			b[0] += 32
		}
		got2, err2 := StringToNote(string(b))
		verifrt.Assert(err2 == nil && got2 == n, "C11: letter case does not matter")
	}
	verifrt.Cover("C11: roundtrip")
}
