//go:build verif

package config

import "github.com/gethiox/HIDI/internal/verifrt"

func init() {
	VerifHarnesses["HarnessSelfTestNotes"] = HarnessSelfTestNotes
}

// HarnessSelfTestNotes validates the encoder (regexp unrolling, string and strconv models, map lookups): the
// vectors of the repository's TestStringToNote / TestStringToNoteFail (internal/pkg/midi/event_test.go) are pushed
// through the symbolic executor with concrete values; the real code passes them natively, so a reachable assertion
// here is an error of the translation or of a stub.
func HarnessSelfTestNotes() {
	good := []struct {
		s string
		n byte
	}{
		{"C-2", 0},
		{"C#-2", 1},
		{"D#-2", 3},
		{"E-2", 4},
		{"F-2", 5},
		{"F#-2", 6},
		{"G-2", 7},
		{"G#-2", 8},
		{"A-2", 9},
		{"A#-2", 10},
		{"B-2", 11},
		{"C-1", 12},
		{"C#-1", 13},
		{"D-1", 14},
		{"D#-1", 15},
		{"E-1", 16},
		{"F-1", 17},
		{"F#-1", 18},
		{"G-1", 19},
		{"G#-1", 20},
		{"A-1", 21},
		{"A#-1", 22},
		{"B-1", 23},
		{"C0", 24},
		{"C#0", 25},
		{"D0", 26},
		{"D#0", 27},
		{"E0", 28},
		{"F0", 29},
		{"F#0", 30},
		{"G0", 31},
		{"G#0", 32},
		{"A0", 33},
		{"A#0", 34},
		{"B0", 35},
		{"C1", 36},
		{"C#1", 37},
		{"D1", 38},
		{"D#1", 39},
		{"E1", 40},
		{"F1", 41},
		{"F#1", 42},
		{"G1", 43},
		{"G#1", 44},
		{"A1", 45},
		{"A#1", 46},
		{"B1", 47},
		{"C2", 48},
		{"C#2", 49},
		{"D2", 50},
		{"D#2", 51},
		{"E2", 52},
		{"F2", 53},
		{"F#2", 54},
		{"G2", 55},
		{"G#2", 56},
		{"A2", 57},
		{"A#2", 58},
		{"B2", 59},
		{"C3", 60},
		{"C#3", 61},
		{"D3", 62},
		{"D#3", 63},
		{"E3", 64},
		{"F3", 65},
		{"F#3", 66},
		{"G3", 67},
		{"G#3", 68},
		{"A3", 69},
		{"A#3", 70},
		{"B3", 71},
		{"C4", 72},
		{"C#4", 73},
		{"D4", 74},
		{"D#4", 75},
		{"E4", 76},
		{"F4", 77},
		{"F#4", 78},
		{"G4", 79},
		{"G#4", 80},
		{"A4", 81},
		{"A#4", 82},
		{"B4", 83},
		{"C5", 84},
		{"C#5", 85},
		{"D5", 86},
		{"D#5", 87},
		{"E5", 88},
		{"F5", 89},
		{"F#5", 90},
		{"G5", 91},
		{"G#5", 92},
		{"A5", 93},
		{"A#5", 94},
		{"B5", 95},
		{"C6", 96},
		{"C#6", 97},
		{"D6", 98},
		{"D#6", 99},
		{"E6", 100},
		{"F6", 101},
		{"F#6", 102},
		{"G6", 103},
		{"G#6", 104},
		{"A6", 105},
		{"A#6", 106},
		{"B6", 107},
		{"C7", 108},
		{"C#7", 109},
		{"D7", 110},
		{"D#7", 111},
		{"E7", 112},
		{"F7", 113},
		{"F#7", 114},
		{"G7", 115},
		{"G#7", 116},
		{"A7", 117},
		{"A#7", 118},
		{"B7", 119},
		{"C8", 120},
		{"C#8", 121},
		{"D8", 122},
		{"D#8", 123},
		{"E8", 124},
		{"F8", 125},
		{"F#8", 126},
		{"G8", 127},
	}
	for _, tc := range good {
		n, err := StringToNote(tc.s)
		verifrt.Assert(err == nil && n == tc.n, "SELFTEST TestStringToNote: every vector of the repository's test gives the expected note")
	}
	bad := []string{"b-3", "g#8", "", " c-2", "c-2 ", "BLAH junk text c-2"}
	for _, s := range bad {
		n, err := StringToNote(s)
		verifrt.Assert(err != nil && n == 0, "SELFTEST TestStringToNoteFail: every vector of the repository's test is rejected")
	}
	verifrt.Cover("SELFTEST: note-name test vectors executed")
}
