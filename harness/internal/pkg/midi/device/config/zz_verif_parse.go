//go:build verif

package config

import (
	"errors"
	"github.com/gethiox/HIDI/internal/verifrt"
	"github.com/holoplot/go-evdev"
)

func init() {
	VerifHarnesses["HarnessParse"] = HarnessParse
}

// pickStr chooses among the given strings, or (last alternative) an arbitrary short ASCII-printable string.
func pickStr(name string, opts ...string) string {
	i := int(verifrt.U8(name + ".pick"))
	verifrt.Assume(i <= len(opts))
	for j, o := range opts {
		if i == j {
			return o
		}
	}
	n := verifrt.Param("STR", 3)
	s := verifrt.Str(name+".free", n)
	for k := 0; k < len(s); k++ {
		// printable ASCII without quote/backslash so that the native replay can write it as a TOML string
		verifrt.Assume(s[k] >= 0x20 && s[k] < 0x7f && s[k] != '"' && s[k] != '\\')
	}
	return s
}

func optInt(name string) *int {
	if verifrt.Bool(name + ".set") {
		v := int(verifrt.I32(name))
		return &v
	}
	return nil
}

func optStr(name string, opts ...string) *string {
	if verifrt.Bool(name + ".set") {
		v := pickStr(name, opts...)
		return &v
	}
	return nil
}

var keyNames = []string{"KEY_A", "KEY_S", "KEY_ESC", "x1e", "x2C", "KEY_BOGUS", "xZZ", "x", ""}
var absNames = []string{"ABS_X", "ABS_Y", "ABS_HAT0X", "x10", "ABS_BOGUS", "x12345"}
var actionNames = []string{"octave_up", "octave_down", "panic", "cc_learning", "mapping_up", "channel", "exit", "octave_upp", ""}
var typeNames = []string{"cc", "pitch_bend", "key", "action", "CC", "note"}
var modeNames = []string{"off", "no_repeat", "interrupt", "retrigger", "Off", ""}
var keyValues = []string{"60", "c#3", "60,3", "0", "127", "128", "c9", "60,16", "60,-1", "60,x", "1,2,3", ",", "h3", "e#2", "-1"}

// buildDecoded produces an arbitrary bounded value of the decoded configuration struct.
func buildDecoded() *TOMLDeviceConfig {
	c := &TOMLDeviceConfig{}
	nm := verifrt.Param("NM", 1)       // mappings
	nk := verifrt.Param("NK", 1)       // keys per key map
	na := verifrt.Param("NA", 1)       // axes per analog map
	nx := verifrt.Param("NX", 1)       // actions, exit keys
	parts := verifrt.Param("PARTS", 7) // 1 key maps, 2 analog maps, 4 actions and exit sequence
	c.CollisionMode = pickStr("mode", modeNames...)
	c.Identifier.Bus, c.Identifier.Vendor = verifrt.U16("id.bus"), verifrt.U16("id.vendor")
	c.Identifier.Product, c.Identifier.Version = verifrt.U16("id.product"), verifrt.U16("id.version")
	c.Identifier.Uniq = pickStr("id.uniq", "", "aa:bb")
	c.Defaults.Octave, c.Defaults.Semitone = int(verifrt.I32("def.octave")), int(verifrt.I32("def.semitone"))
	c.Defaults.Channel, c.Defaults.Velocity = int(verifrt.I32("def.channel")), int(verifrt.I32("def.velocity"))
	c.Defaults.Mapping = pickStr("def.mapping", "m0", "m1", "")
	c.OpenRGB.White, c.OpenRGB.Black, c.OpenRGB.C = int(verifrt.I32("rgb.white")), int(verifrt.I32("rgb.black")), int(verifrt.I32("rgb.c"))
	c.OpenRGB.Unavailable, c.OpenRGB.Other = int(verifrt.I32("rgb.unavailable")), int(verifrt.I32("rgb.other"))
	c.OpenRGB.Active, c.OpenRGB.ActiveExternal = int(verifrt.I32("rgb.active")), int(verifrt.I32("rgb.activeext"))
	if parts&4 != 0 && verifrt.Bool("actions.present") {
		c.ActionMapping = map[string]string{}
		for i := 0; i < nx; i++ {
			if verifrt.Bool(verifrt.N("action.has", i)) {
				c.ActionMapping[pickStr(verifrt.N("action.key", i), keyNames...)] = pickStr(verifrt.N("action.val", i), actionNames...)
			}
		}
	}
	for i := 0; i < nx; i++ {
		if parts&4 != 0 && verifrt.Bool(verifrt.N("exit.has", i)) {
			c.ExitSequence = append(c.ExitSequence, pickStr(verifrt.N("exit.key", i), keyNames...))
		}
	}
	nMap := int(verifrt.U8("mappings.n"))
	verifrt.Assume(nMap <= nm)
	for m := 0; m < nm; m++ {
		if m >= nMap {
			break
		}
		var km struct {
			Name       string `toml:"name"`
			KeyMapping []struct {
				SubHandler string            `toml:"subhandler"`
				Map        map[string]string `toml:"map"`
			} `toml:"keys"`
			AnalogMapping []struct {
				SubHandler      string  `toml:"subhandler"`
				DefaultDeadzone float64 `toml:"default_deadzone,omitempty"`
				Map             map[string]struct {
					Type                  string  `toml:"type"`
					CC                    *int    `toml:"cc,omitempty"`
					CCNegative            *int    `toml:"cc_negative,omitempty"`
					Note                  *int    `toml:"note,omitempty"`
					NoteNegative          *int    `toml:"note_negative,omitempty"`
					ChannelOffset         int     `toml:"channel_offset"`
					ChannelOffsetNegative int     `toml:"channel_offset_negative"`
					Action                *string `toml:"action,omitempty"`
					ActionNegative        *string `toml:"action_negative,omitempty"`
					FlipAxis              bool    `toml:"flip_axis"`
					DeadzoneAtCenter      bool    `toml:"deadzone_at_center,omitempty"`
				} `toml:"map"`
				Deadzones map[string]float64 `toml:"deadzones,omitempty"`
			} `toml:"analog,omitempty"`
		}
		km.Name = pickStr(verifrt.N("map.name", m), "m0", "m1")
		if parts&1 != 0 && verifrt.Bool(verifrt.N("keys.present", m)) {
			km.KeyMapping = make([]struct {
				SubHandler string            `toml:"subhandler"`
				Map        map[string]string `toml:"map"`
			}, 1)
			km.KeyMapping[0].SubHandler = pickStr(verifrt.N("keys.sub", m), "", "Mouse")
			if verifrt.Bool(verifrt.N("keys.map", m)) {
				km.KeyMapping[0].Map = map[string]string{}
				for k := 0; k < nk; k++ {
					if verifrt.Bool(verifrt.N("key.has", m, k)) {
						km.KeyMapping[0].Map[pickStr(verifrt.N("key.name", m, k), keyNames...)] = pickStr(verifrt.N("key.val", m, k), keyValues...)
					}
				}
			}
		}
		if parts&2 != 0 && verifrt.Bool(verifrt.N("analog.present", m)) {
			km.AnalogMapping = make([]struct {
				SubHandler      string  `toml:"subhandler"`
				DefaultDeadzone float64 `toml:"default_deadzone,omitempty"`
				Map             map[string]struct {
					Type                  string  `toml:"type"`
					CC                    *int    `toml:"cc,omitempty"`
					CCNegative            *int    `toml:"cc_negative,omitempty"`
					Note                  *int    `toml:"note,omitempty"`
					NoteNegative          *int    `toml:"note_negative,omitempty"`
					ChannelOffset         int     `toml:"channel_offset"`
					ChannelOffsetNegative int     `toml:"channel_offset_negative"`
					Action                *string `toml:"action,omitempty"`
					ActionNegative        *string `toml:"action_negative,omitempty"`
					FlipAxis              bool    `toml:"flip_axis"`
					DeadzoneAtCenter      bool    `toml:"deadzone_at_center,omitempty"`
				} `toml:"map"`
				Deadzones map[string]float64 `toml:"deadzones,omitempty"`
			}, 1)
			am := &km.AnalogMapping[0]
			am.SubHandler = pickStr(verifrt.N("analog.sub", m), "", "Touchpad")
			am.DefaultDeadzone = float64(verifrt.U8(verifrt.N("analog.defdz", m))%100) / 100
			if verifrt.Bool(verifrt.N("analog.map", m)) {
				am.Map = map[string]struct {
					Type                  string  `toml:"type"`
					CC                    *int    `toml:"cc,omitempty"`
					CCNegative            *int    `toml:"cc_negative,omitempty"`
					Note                  *int    `toml:"note,omitempty"`
					NoteNegative          *int    `toml:"note_negative,omitempty"`
					ChannelOffset         int     `toml:"channel_offset"`
					ChannelOffsetNegative int     `toml:"channel_offset_negative"`
					Action                *string `toml:"action,omitempty"`
					ActionNegative        *string `toml:"action_negative,omitempty"`
					FlipAxis              bool    `toml:"flip_axis"`
					DeadzoneAtCenter      bool    `toml:"deadzone_at_center,omitempty"`
				}{}
				for x := 0; x < na; x++ {
					if !verifrt.Bool(verifrt.N("axis.has", m, x)) {
						continue
					}
					e := am.Map[""] // zero value of the entry type
					pre := verifrt.N("axis", m, x)
					e.Type = pickStr(pre+".type", typeNames...)
					e.CC, e.CCNegative = optInt(pre+".cc"), optInt(pre+".ccneg")
					e.Note, e.NoteNegative = optInt(pre+".note"), optInt(pre+".noteneg")
					e.ChannelOffset, e.ChannelOffsetNegative = int(verifrt.I32(pre+".off")), int(verifrt.I32(pre+".offneg"))
					e.Action, e.ActionNegative = optStr(pre+".action", actionNames...), optStr(pre+".actionneg", actionNames...)
					e.FlipAxis, e.DeadzoneAtCenter = verifrt.Bool(pre+".flip"), verifrt.Bool(pre+".dzc")
					am.Map[pickStr(pre+".name", absNames...)] = e
				}
			}
			if verifrt.Bool(verifrt.N("analog.dz", m)) {
				am.Deadzones = map[string]float64{pickStr(verifrt.N("analog.dzname", m), absNames...): float64(verifrt.U8(verifrt.N("analog.dzval", m))%100) / 100}
			}
		}
		c.KeyMappings = append(c.KeyMappings, km)
	}
	return c
}

// rangeInv is the invariant the device relies on (C05): every numeric field within its MIDI range.
func rangeInv(cfg *Config) bool {
	ok := cfg.Defaults.Velocity >= 1 && cfg.Defaults.Velocity <= 127 &&
		cfg.Defaults.Channel >= 1 && cfg.Defaults.Channel <= 16 &&
		cfg.Defaults.Mapping >= 0 && cfg.Defaults.Mapping < len(cfg.KeyMappings)
	for _, km := range cfg.KeyMappings {
		for _, sub := range km.Midi {
			for _, k := range sub {
				ok = ok && k.Note <= 127 && k.ChannelOffset <= 15
			}
		}
		for _, sub := range km.Analog {
			for _, a := range sub {
				ok = ok && a.CC <= 119 && a.CCNeg <= 119 && a.Note <= 127 && a.NoteNeg <= 127 && a.ChannelOffset <= 15 && a.ChannelOffsetNeg <= 15
			}
		}
	}
	return ok
}

// HarnessParse: an arbitrary bounded decoded configuration (or a decoder failure) through the real ParseData:
// C09 no run-time panic (reported by the engine), C10/C05 every accepted configuration is within MIDI ranges and
// says what the file says; invalid values are rejected.
func HarnessParse() {
	dec := buildDecoded()
	failKind := int(verifrt.U8("toml.fail") % 5)
	cfg, err := ParseData(verifrt.TOMLBytesFail(dec, failKind))
	if failKind != 0 {
		verifrt.Cover("C09/C12: a file the decoder rejects")
		verifrt.Assert(err != nil, "C09/C12: a file that does not decode is reported as an error")
	}
	if err != nil {
		verifrt.Cover("C09: rejected with an error")
	} else {
		verifrt.Cover("C09: accepted")
		verifrt.Assert(rangeInv(&cfg), "C05/C10: every accepted configuration has all values within their MIDI ranges")
	}
	checkFaithful(dec, &cfg, err)
}

func supportedAction(s string) bool {
	switch Action(s) {
	case MappingUp, MappingDown, Mapping, OctaveUp, OctaveDown, SemitoneUp, SemitoneDown, ChannelUp, ChannelDown, Channel, Multinote, Panic, Learning, Exit:
		return true
	}
	return false
}

// checkFaithful compares the result with the decoded value field by field (independent reference).
func checkFaithful(dec *TOMLDeviceConfig, cfg *Config, err error) {
	accepted := err == nil
	// ---- invalid values are rejected ----
	switch CollisionMode(dec.CollisionMode) {
	case CollisionOff, CollisionNoRepeat, CollisionInterrupt, CollisionRetrigger:
	default:
		verifrt.Assert(!accepted, "C10: an unknown collision mode is rejected")
	}
	if dec.Defaults.Velocity < 0 || dec.Defaults.Velocity > 127 {
		verifrt.Assert(!accepted, "C10: an out-of-range velocity is rejected")
	}
	if dec.Defaults.Channel < 1 || dec.Defaults.Channel > 16 {
		verifrt.Assert(!accepted, "C10: an out-of-range default channel is rejected")
	}
	found := false
	for _, m := range dec.KeyMappings {
		if m.Name == dec.Defaults.Mapping {
			found = true
		}
	}
	if !found {
		verifrt.Assert(!accepted, "C10: a default mapping that does not exist is rejected")
	}
	for _, a := range dec.ActionMapping {
		if !supportedAction(a) {
			verifrt.Assert(!accepted, "C10: an unknown action is rejected")
		}
	}
	for _, m := range dec.KeyMappings {
		for _, sub := range m.KeyMapping {
			for _, v := range sub.Map {
				if ok, _, _ := refKeyValue(v); !ok {
					verifrt.Assert(!accepted, "C10: a key whose note or channel offset is malformed or out of range is rejected")
				}
			}
		}
	}
	for _, m := range dec.KeyMappings {
		for _, am := range m.AnalogMapping {
			for _, e := range am.Map {
				switch MappingType(e.Type) {
				case AnalogCC:
					if e.CC == nil || *e.CC < 0 || *e.CC > 119 || (e.CCNegative != nil && (*e.CCNegative < 0 || *e.CCNegative > 119)) {
						verifrt.Assert(!accepted, "C10: a missing or out-of-range controller number is rejected")
					}
				case AnalogKeySim:
					if e.Note == nil || *e.Note < 0 || *e.Note > 127 || (e.NoteNegative != nil && (*e.NoteNegative < 0 || *e.NoteNegative > 127)) {
						verifrt.Assert(!accepted, "C10: a missing or out-of-range axis note is rejected")
					}
				case AnalogActionSim:
					if e.Action == nil || !supportedAction(*e.Action) || (e.ActionNegative != nil && !supportedAction(*e.ActionNegative)) {
						verifrt.Assert(!accepted, "C10: a missing or unknown axis action is rejected")
					}
				case AnalogPitchBend:
				default:
					verifrt.Assert(!accepted, "C10: an unknown mapping type is rejected")
				}
				if e.ChannelOffset < 0 || e.ChannelOffset > 15 || e.ChannelOffsetNegative < 0 || e.ChannelOffsetNegative > 15 {
					verifrt.Assert(!accepted, "C10: an out-of-range axis channel offset is rejected")
				}
			}
		}
	}
	if !accepted {
		return
	}
	// ---- accepted: the configuration says what the file says ----
	verifrt.Assert(string(cfg.CollisionMode) == dec.CollisionMode, "C10: collision mode as in the file")
	verifrt.Assert(cfg.ID.Bus == dec.Identifier.Bus && cfg.ID.Vendor == dec.Identifier.Vendor && cfg.ID.Product == dec.Identifier.Product &&
		cfg.ID.Version == dec.Identifier.Version && cfg.Uniq == dec.Identifier.Uniq, "C10: identifier as in the file")
	wantVel := dec.Defaults.Velocity
	if wantVel == 0 {
		wantVel = 64
	}
	verifrt.Assert(cfg.Defaults.Octave == dec.Defaults.Octave && cfg.Defaults.Semitone == dec.Defaults.Semitone &&
		cfg.Defaults.Channel == dec.Defaults.Channel && cfg.Defaults.Velocity == wantVel, "C10: defaults as in the file (velocity 0 means 64)")
	verifrt.Assert(cfg.Defaults.Mapping >= 0 && cfg.Defaults.Mapping < len(cfg.KeyMappings) &&
		cfg.KeyMappings[cfg.Defaults.Mapping].Name == dec.Defaults.Mapping, "C10: default mapping index points at the named mapping")
	col := cfg.OpenRGB.Colors
	verifrt.Assert(col.White.Red == byte(dec.OpenRGB.White>>16) && col.White.Green == byte(dec.OpenRGB.White>>8) && col.White.Blue == byte(dec.OpenRGB.White) &&
		col.Active.Red == byte(dec.OpenRGB.Active>>16) && col.ActiveExternal.Blue == byte(dec.OpenRGB.ActiveExternal) &&
		col.C.Green == byte(dec.OpenRGB.C>>8) && col.Black.Red == byte(dec.OpenRGB.Black>>16) && col.Unavailable.Blue == byte(dec.OpenRGB.Unavailable) &&
		col.Other.Green == byte(dec.OpenRGB.Other>>8), "C10: colours split into their RGB bytes")
	verifrt.Assert(len(cfg.ExitSequence) == len(dec.ExitSequence), "C10: exit sequence has the keys of the file, in order")
	verifrt.Assert(len(cfg.KeyMappings) == len(dec.KeyMappings), "C10: one mapping per mapping of the file, in order")
	for name, act := range dec.ActionMapping {
		code, e := refEvCode(name, evdev.KEYFromString)
		verifrt.Assert(e == nil, "C10: accepted files have only known key names")
		// the same key may be named twice (by name and by hex code): then either action is a faithful answer
		other := false
		for n2, a2 := range dec.ActionMapping {
			c2, e2 := refEvCode(n2, evdev.KEYFromString)
			if n2 != name && e2 == nil && c2 == code && a2 != act {
				other = true
			}
		}
		got, ok := cfg.ActionMapping[code]
		verifrt.Assert(ok && (string(got) == act || other), "C10: every action key of the file is in the configuration with its action")
	}
	for i, m := range dec.KeyMappings {
		if i >= len(cfg.KeyMappings) {
			break
		}
		km := cfg.KeyMappings[i]
		verifrt.Assert(km.Name == m.Name, "C10: mapping names as in the file")
		for _, am := range m.AnalogMapping {
			verifrt.Assert(km.DefaultDeadzone[am.SubHandler] == am.DefaultDeadzone, "C10: per-handler default deadzone as in the file")
			for name, e := range am.Map {
				code, e2 := refEvCode(name, evdev.ABSFromString)
				verifrt.Assert(e2 == nil, "C10: accepted files have only known axis names")
				a, ok := km.Analog[am.SubHandler][code]
				verifrt.Assert(ok, "C10: every axis of the file is in the configuration")
				if !ok {
					continue
				}
				// the same axis written twice (by name and by hex code): either entry may have won; only axes
				// written once are compared field by field
				twice := false
				for n2 := range am.Map {
					c2, e3 := refEvCode(n2, evdev.ABSFromString)
					if n2 != name && e3 == nil && c2 == code {
						twice = true
					}
				}
				if twice {
					continue
				}
				verifrt.Assert(string(a.MappingType) == e.Type && a.FlipAxis == e.FlipAxis && a.DeadzoneAtCenter == e.DeadzoneAtCenter, "C10: axis type, flip and deadzone-at-centre as in the file")
				switch a.MappingType {
				case AnalogCC:
					verifrt.Cover("C10: accepted cc axis")
					verifrt.Assert(int(a.CC) == *e.CC && a.Bidirectional == (e.CCNegative != nil) && (e.CCNegative == nil || int(a.CCNeg) == *e.CCNegative), "C10: controller numbers as in the file")
					verifrt.Assert(int(a.ChannelOffset) == e.ChannelOffset && int(a.ChannelOffsetNeg) == e.ChannelOffsetNegative, "C10: axis channel offsets as in the file")
				case AnalogKeySim:
					verifrt.Cover("C10: accepted key axis")
					verifrt.Assert(int(a.Note) == *e.Note && a.Bidirectional == (e.NoteNegative != nil) && (e.NoteNegative == nil || int(a.NoteNeg) == *e.NoteNegative), "C10: axis notes as in the file")
					verifrt.Assert(int(a.ChannelOffset) == e.ChannelOffset && int(a.ChannelOffsetNeg) == e.ChannelOffsetNegative, "C10: axis channel offsets as in the file")
				case AnalogActionSim:
					verifrt.Cover("C10: accepted action axis")
					verifrt.Assert(string(a.Action) == *e.Action && a.Bidirectional == (e.ActionNegative != nil) && (e.ActionNegative == nil || string(a.ActionNeg) == *e.ActionNegative), "C10: axis actions as in the file")
				case AnalogPitchBend:
					verifrt.Assert(int(a.ChannelOffset) == e.ChannelOffset, "C10: axis channel offsets as in the file")
				}
			}
		}
		for _, sub := range m.KeyMapping {
			for name, val := range sub.Map {
				code, e2 := refEvCode(name, evdev.KEYFromString)
				verifrt.Assert(e2 == nil, "C10: accepted files have only known key names")
				k, ok := km.Midi[sub.SubHandler][code]
				verifrt.Assert(ok && k.Note <= 127 && k.ChannelOffset <= 15, "C10: every key of the file is in the configuration, in range")
				okRef, wantNote, wantOff := refKeyValue(val)
				// the same key may be written twice (by name and by hex code): then either entry is a faithful answer
				other := false
				for n2, v2 := range sub.Map {
					c2, e3 := refEvCode(n2, evdev.KEYFromString)
					if n2 != name && e3 == nil && c2 == code {
						ok2, n2v, o2v := refKeyValue(v2)
						other = other || (ok2 && k.Note == n2v && k.ChannelOffset == o2v)
					}
				}
				verifrt.Assert(okRef && ((k.Note == wantNote && k.ChannelOffset == wantOff) || other), "C10: every key has the note and channel offset the file says")
			}
		}
	}
}

// refAtoi: independent reading of a decimal integer as strconv.Atoi accepts it (optional sign, digits only);
// strings of the lengths used here cannot overflow.
func refAtoi(s string) (int, bool) {
	i, neg := 0, false
	if len(s) > 0 && (s[0] == '+' || s[0] == '-') {
		neg = s[0] == '-'
		i = 1
	}
	if i >= len(s) || len(s) > 9 {
		return 0, false
	}
	v := 0
	for ; i < len(s); i++ {
		if s[i] < '0' || s[i] > '9' {
			return 0, false
		}
		v = v*10 + int(s[i]-'0')
	}
	if neg {
		v = -v
	}
	return v, true
}

// refKeyValue: what a key entry "note" or "note,offset" means: note a number 0..127 or a note name, offset a
// number 0..15 (default 0); anything else is invalid.
func refKeyValue(s string) (ok bool, note, off uint8) {
	comma, commas := -1, 0
	for i := 0; i < len(s); i++ {
		if s[i] == ',' {
			commas++
			if comma < 0 {
				comma = i
			}
		}
	}
	if commas > 1 {
		return false, 0, 0
	}
	noteRaw, offRaw := s, "0"
	if commas == 1 {
		noteRaw, offRaw = s[:comma], s[comma+1:]
	}
	o, okO := refAtoi(offRaw)
	if !okO || o < 0 || o > 15 {
		return false, 0, 0
	}
	if n, okN := refAtoi(noteRaw); okN {
		if n < 0 || n > 127 {
			return false, 0, 0
		}
		return true, uint8(n), uint8(o)
	}
	if okName, n := refNote(noteRaw); okName {
		return true, n, uint8(o)
	}
	return false, 0, 0
}

// refEvCode: independent reading of a key / axis name of a configuration file: "x" followed by 1-4 hexadecimal
// digits is the code itself, anything else must be a name of the table (the returned error is non-nil otherwise).
func refEvCode(name string, table map[string]evdev.EvCode) (evdev.EvCode, error) {
	if len(name) > 0 && name[0] == 'x' {
		if len(name) < 2 || len(name) > 5 {
			return 0, errRefName
		}
		v := 0
		for i := 1; i < len(name); i++ {
			c := name[i]
			switch {
			case c >= '0' && c <= '9':
				v = v*16 + int(c-'0')
			case c >= 'a' && c <= 'f':
				v = v*16 + int(c-'a') + 10
			case c >= 'A' && c <= 'F':
				v = v*16 + int(c-'A') + 10
			default:
				return 0, errRefName
			}
		}
		return evdev.EvCode(v), nil
	}
	if code, ok := table[name]; ok {
		return code, nil
	}
	return 0, errRefName
}

var errRefName = errors.New("not a key or axis name")
