//go:build verif

package config

import (
	"context"
	"os"
	"sync"

	"github.com/gethiox/HIDI/internal/pkg/input"
	"github.com/gethiox/HIDI/internal/verifrt"
)

func init() {
	VerifHarnesses["HarnessC12Walk"] = HarnessC12Walk
	VerifHarnesses["HarnessC12Load"] = HarnessC12Load
}

// walkFile is one candidate file of a configuration directory.
type walkFile struct {
	rel     string // path below the directory
	toml    bool   // the loader must consider it (suffix .toml, any case)
	present bool
	quality int // 0 good, 1 syntax error, 2 unknown field, 3 decodes but is rejected (channel 17), 4 empty file, 5 the decoder panics
	vendor  uint16
}

func walkTempDir() func() {
	if verifrt.Symbolic() {
		return func() {}
	}
	dir, err := os.MkdirTemp("", "verif-c12-")
	if err != nil {
		panic(err)
	}
	old, _ := os.Getwd()
	os.Chdir(dir)
	return func() { os.Chdir(old); os.RemoveAll(dir) }
}

func walkWrite(path string, data []byte) {
	f, err := os.OpenFile(path, os.O_CREATE|os.O_WRONLY|os.O_TRUNC, 0o666)
	verifrt.Assume(err == nil)
	_, err = f.Write(data)
	verifrt.Assume(err == nil)
	f.Close()
}

// walkContent builds the content of a candidate file: a minimal configuration with identifier vendor (0 = the
// default identifier), spoilt according to quality.
func walkContent(f *walkFile) []byte {
	c := &TOMLDeviceConfig{}
	c.CollisionMode = "off"
	c.Identifier.Vendor = f.vendor
	c.Defaults.Channel, c.Defaults.Velocity, c.Defaults.Mapping = 1, 64, "Piano"
	if f.quality == 3 {
		c.Defaults.Channel = 17
	}
	c.KeyMappings = make([]struct {
		Name       string `toml:"name"`
		KeyMapping []struct {
			SubHandler string            `toml:"subhandler"`
			Map        map[string]string `toml:"map"`
		} `toml:"keys"`
		AnalogMapping []struct {
			SubHandler      string  `toml:"subhandler"`
			DefaultDeadzone float64 `toml:"default_deadzone,omitempty"`
			Map             map[string]struct {
				Type                  string  `toml:"type"`
				CC                    *int    `toml:"cc,omitempty"`
				CCNegative            *int    `toml:"cc_negative,omitempty"`
				Note                  *int    `toml:"note,omitempty"`
				NoteNegative          *int    `toml:"note_negative,omitempty"`
				ChannelOffset         int     `toml:"channel_offset"`
				ChannelOffsetNegative int     `toml:"channel_offset_negative"`
				Action                *string `toml:"action,omitempty"`
				ActionNegative        *string `toml:"action_negative,omitempty"`
				FlipAxis              bool    `toml:"flip_axis"`
				DeadzoneAtCenter      bool    `toml:"deadzone_at_center,omitempty"`
			} `toml:"map"`
			Deadzones map[string]float64 `toml:"deadzones,omitempty"`
		} `toml:"analog,omitempty"`
	}, 1)
	c.KeyMappings[0].Name = "Piano"
	switch f.quality {
	case 1:
		return verifrt.TOMLToken(c, 1)
	case 2:
		return verifrt.TOMLToken(c, 2)
	case 4:
		return []byte{}
	case 5:
		return verifrt.TOMLToken(c, 4)
	}
	return verifrt.TOMLToken(c, 0)
}

// walkPopulate creates dir (if dirPresent) with the candidate files; every path is touched first so that the
// shape of the symbolic file system does not depend on symbolic choices.
func walkPopulate(dir string, dirPresent bool, files []walkFile, tag string) {
	os.Stat(dir)
	os.Stat(dir + "/sub")
	for i := range files {
		os.Stat(dir + "/" + files[i].rel)
	}
	for i := range files {
		f := &files[i]
		f.present = verifrt.Bool(verifrt.N(tag+".present", i))
		f.quality = int(verifrt.U8(verifrt.N(tag+".quality", i)) % 6)
		f.vendor = uint16(verifrt.U8(verifrt.N(tag+".vendor", i)) % 3)
	}
	if !dirPresent {
		return
	}
	verifrt.Assume(os.MkdirAll(dir, 0o777) == nil)
	verifrt.Assume(os.Mkdir(dir+"/sub", 0o777) == nil)
	for i := range files {
		if files[i].present {
			walkWrite(dir+"/"+files[i].rel, walkContent(&files[i]))
		}
	}
}

func walkBase(rel string) string {
	for i := len(rel) - 1; i >= 0; i-- {
		if rel[i] == '/' {
			return rel[i+1:]
		}
	}
	return rel
}

// walkExpect asserts that configMap holds exactly the good .toml files of the directory.
func walkExpect(cm ConfigMap, files []walkFile, what string) {
	for v := uint16(0); v < 3; v++ {
		id := input.InputID{Vendor: v}
		want := false
		for i := range files {
			f := &files[i]
			if f.toml && f.present && f.quality == 0 && f.vendor == v {
				want = true
			}
		}
		got, ok := cm[id]
		verifrt.Assert(ok == want, "C12: "+what+": a configuration is loaded for an identifier iff a well-formed .toml file (any case, nested or not) declares it; broken, empty and non-TOML files change nothing")
		if ok {
			from := false
			for i := range files {
				f := &files[i]
				if f.toml && f.present && f.quality == 0 && f.vendor == v && got.ConfigFile == walkBase(f.rel) {
					from = true
				}
			}
			verifrt.Assert(from && got.Config.ID == id, "C12: "+what+": a loaded configuration comes from a well-formed file declaring that identifier")
		}
	}
}

func walkCandidates() []walkFile {
	// a hidden file sorts before everything else: a walk that gives up on it must not lose the others
	return []walkFile{{rel: "a.toml", toml: true}, {rel: "B.TOML", toml: true}, {rel: "c.txt"}, {rel: "sub/d.toml", toml: true}, {rel: ".h.toml", toml: true}, {rel: ".keep"}}
}

// HarnessC12Walk: the real loadDirectory over a directory that is missing or holds any combination of good,
// broken (syntax error, unknown field, rejected value, empty) and non-TOML files, one of them nested.
func HarnessC12Walk() {
	defer walkTempDir()()
	files := walkCandidates()[:verifrt.Param("NF", 6)]
	dirPresent := verifrt.Bool("dir.present")
	walkPopulate(userKeyboard, dirPresent, files, "f")
	cm := make(ConfigMap)
	err := loadDirectory(userKeyboard, "user", cm)
	if !dirPresent {
		verifrt.Cover("C12: missing directory")
		verifrt.Assert(len(cm) == 0, "C12: a missing directory yields no configuration (an error, or counted as empty)")
		return
	}
	verifrt.Assert(err == nil, "C12: a readable directory loads without error whatever files it holds")
	bad := false
	for i := range files {
		if files[i].toml && files[i].present && files[i].quality != 0 {
			bad = true
		}
	}
	if bad {
		verifrt.Cover("C12: a broken file among the others")
	}
	walkExpect(cm, files, "directory walk")
}

// HarnessC12Load: the real LoadDeviceConfigs over the four directories (each missing or holding one candidate
// file of arbitrary quality and identifier) followed by the real FindConfig: the stated precedence end to end.
func HarnessC12Load() {
	defer walkTempDir()()
	dirs := [4]string{userKeyboard, factoryKeyboard, userGamepad, factoryGamepad}
	var files [4][]walkFile
	var present [4]bool
	allPresent := true
	for d := 0; d < 4; d++ {
		files[d] = []walkFile{{rel: "k.toml", toml: true}, {rel: ".keep"}, {rel: "sub/z.toml", toml: true}}[:verifrt.Param("NF", 2)]
		present[d] = verifrt.Bool(verifrt.N("dir.present", d))
		if mask := verifrt.Param("DIRS", -1); mask >= 0 {
			present[d] = mask&(1<<uint(d)) != 0
		}
		walkPopulate(dirs[d], present[d], files[d], verifrt.N("d", d))
		allPresent = allPresent && present[d]
	}
	var wg sync.WaitGroup
	cfgs, err := LoadDeviceConfigs(context.Background(), &wg)
	if !allPresent {
		verifrt.Cover("C12: a configuration directory is missing")
		// "an error, or that directory counted as empty": both are fine, a crash is not (reported by the engine)
		if err != nil {
			return
		}
	} else {
		verifrt.Assert(err == nil, "C12: loading succeeds when all four directories exist")
		if err != nil {
			return
		}
	}
	walkExpect(cfgs.User.Keyboards, files[0], "user keyboards")
	walkExpect(cfgs.Factory.Keyboards, files[1], "factory keyboards")
	walkExpect(cfgs.User.Gamepads, files[2], "user gamepads")
	walkExpect(cfgs.Factory.Gamepads, files[3], "factory gamepads")
	// end to end: the device (vendor 1 or 2, keyboard or joystick) gets the first of user exact, user default,
	// factory exact, factory default
	id := input.InputID{Vendor: 1 + uint16(verifrt.U8("dev.vendor")%2)}
	joystick := verifrt.Bool("dev.joystick")
	devType, user, factory := input.KeyboardDevice, files[0], files[1]
	if joystick {
		devType, user, factory = input.JoystickDevice, files[2], files[3]
	}
	has := func(fs []walkFile, v uint16) bool {
		for i := range fs {
			if fs[i].toml && fs[i].present && fs[i].quality == 0 && fs[i].vendor == v {
				return true
			}
		}
		return false
	}
	got, ferr := cfgs.FindConfig(id, devType)
	switch {
	case has(user, id.Vendor):
		verifrt.Cover("C12: user file for the exact identifier")
		verifrt.Assert(ferr == nil && got.ConfigType == "user" && got.Config.ID == id, "C12: the user file for the exact identifier wins")
	case has(user, 0):
		verifrt.Cover("C12: user default")
		verifrt.Assert(ferr == nil && got.ConfigType == "user" && got.Config.ID == (input.InputID{}), "C12: then the user default")
	case has(factory, id.Vendor):
		verifrt.Cover("C12: factory file for the exact identifier")
		verifrt.Assert(ferr == nil && got.ConfigType == "factory" && got.Config.ID == id, "C12: then the factory file for the exact identifier")
	case has(factory, 0):
		verifrt.Cover("C12: factory default")
		verifrt.Assert(ferr == nil && got.ConfigType == "factory" && got.Config.ID == (input.InputID{}), "C12: then the factory default")
	default:
		verifrt.Cover("C12: no configuration")
		verifrt.Assert(ferr != nil, "C12: no candidate: an error (the device is skipped)")
	}
}
