//go:build verif

package config

import (
	"errors"

	"github.com/gethiox/HIDI/internal/pkg/input"
	"github.com/gethiox/HIDI/internal/verifrt"
)

func init() {
	VerifHarnesses["HarnessC12Find"] = HarnessC12Find
}

// HarnessC12Find: every presence/absence combination of the four candidate files in both device classes,
// arbitrary identifier (including the zero identifier) and arbitrary device type.
func HarnessC12Find() {
	id := input.InputID{Bus: verifrt.U16("id.bus"), Vendor: verifrt.U16("id.vendor"), Product: verifrt.U16("id.product"), Version: verifrt.U16("id.version")}
	// a second, different identifier: files for other devices must never be picked
	other := input.InputID{Bus: verifrt.U16("o.bus"), Vendor: verifrt.U16("o.vendor"), Product: verifrt.U16("o.product"), Version: verifrt.U16("o.version")}
	zero := input.InputID{}
	verifrt.Assume(other != id && other != zero)
	idIsZero := id == zero

	dc := DeviceConfigs{}
	dc.User.Keyboards, dc.User.Gamepads = make(ConfigMap), make(ConfigMap)
	dc.Factory.Keyboards, dc.Factory.Gamepads = make(ConfigMap), make(ConfigMap)
	maps := [4]ConfigMap{dc.User.Keyboards, dc.Factory.Keyboards, dc.User.Gamepads, dc.Factory.Gamepads}
	// presence bits and payload tags: tag = 10*map + {1 exact, 2 default, 3 other}
	var hasExact, hasDefault [4]bool
	for m := 0; m < 4; m++ {
		hasExact[m] = verifrt.Bool(verifrt.N("has.exact", m))
		hasDefault[m] = verifrt.Bool(verifrt.N("has.default", m))
		hasOther := verifrt.Bool(verifrt.N("has.other", m))
		if idIsZero {
			hasExact[m] = false // the exact file IS the default file
		}
		if hasOther {
			maps[m][other] = DeviceConfig{ConfigFile: "other", Config: Config{Defaults: Defaults{Velocity: 10*m + 3}}}
		}
		if hasDefault[m] {
			maps[m][zero] = DeviceConfig{ConfigFile: "default", Config: Config{Defaults: Defaults{Velocity: 10*m + 2}}}
		}
		if hasExact[m] {
			maps[m][id] = DeviceConfig{ConfigFile: "exact", Config: Config{Defaults: Defaults{Velocity: 10*m + 1}}}
		}
	}
	devType := input.DeviceType(verifrt.Int("devtype"))

	got, err := dc.FindConfig(id, devType)

	var user, factory int
	switch devType {
	case input.KeyboardDevice:
		user, factory = 0, 1
	case input.JoystickDevice:
		user, factory = 2, 3
	default:
		verifrt.Cover("C12: unsupported device type")
		verifrt.Assert(err != nil && errors.Is(err, UnsupportedDeviceType), "C12: unsupported device types get the UnsupportedDeviceType error")
		return
	}
	want := 0
	switch {
	case hasExact[user]:
		want = 10*user + 1
	case hasDefault[user]:
		want = 10*user + 2
	case hasExact[factory]:
		want = 10*factory + 1
	case hasDefault[factory]:
		want = 10*factory + 2
	}
	if want == 0 {
		verifrt.Cover("C12: no configuration exists")
		verifrt.Assert(err != nil, "C12: an error (device skipped) when none of the four files exists")
		verifrt.Assert(!errors.Is(err, UnsupportedDeviceType), "C12: a missing configuration is not reported as an unsupported device type")
		return
	}
	verifrt.Cover("C12: a configuration is selected")
	verifrt.Assert(err == nil, "C12: a device with an applicable file gets a configuration")
	verifrt.Assert(got.Config.Defaults.Velocity == want, "C12: user exact > user default > factory exact > factory default, from the device's own class")
}
