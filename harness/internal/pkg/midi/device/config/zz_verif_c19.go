//go:build verif

package config

import (
	"context"
	"os"
	"path/filepath"
	"strings"
	"time"

	"github.com/fsnotify/fsnotify"
	"github.com/gethiox/HIDI/internal/verifrt"
)

func init() {
	VerifHarnesses["HarnessC19"] = HarnessC19
}

var c19Names = [6]string{"a.toml", "B.TOML", "notes.txt", "atoml", "c.toml.bak", "d.Toml"}

func c19Accepted(name string, op fsnotify.Op) bool {
	return op == fsnotify.Write && strings.HasSuffix(strings.ToLower(name), ".toml")
}

// HarnessC19: the real DetectDeviceConfigChanges goroutines against an event source (N events: arbitrary file
// name from a list, arbitrary operation), a consumer that reads whenever the scheduler lets it, and an optional
// cancellation at an arbitrary moment.
func HarnessC19() {
	verifrt.Enable("concurrent")
	for attempt := 0; attempt < verifrt.Attempts(); attempt++ {
		c19Scenario(attempt)
	}
}

func c19Scenario(attempt int) {
	n := verifrt.Param("N", 2)
	k := verifrt.Param("K", 14)
	var names [3]uint8
	var ops [3]fsnotify.Op
	accepted := 0
	for i := 0; i < n; i++ {
		names[i] = verifrt.U8(verifrt.N("ev.name", i)) % 6
		switch verifrt.U8(verifrt.N("ev.op", i)) % 4 {
		case 0:
			ops[i] = fsnotify.Write
		case 1:
			ops[i] = fsnotify.Create
		case 2:
			ops[i] = fsnotify.Chmod
		default:
			ops[i] = fsnotify.Remove
		}
		if c19Accepted(c19Names[names[i]], ops[i]) {
			accepted++
		}
	}
	doCancel := verifrt.Bool("cancel")

	var dir, old string
	if !verifrt.Symbolic() {
		// native: a scratch working directory with the four watched directories and the files in place
		dir, _ = os.MkdirTemp("", "verif-c19-")
		old, _ = os.Getwd()
		for _, d := range []string{factoryGamepad, factoryKeyboard, userGamepad, userKeyboard} {
			os.MkdirAll(filepath.Join(dir, d), 0o755)
		}
		for _, nm := range c19Names {
			os.WriteFile(filepath.Join(dir, userKeyboard, nm), []byte("x"), 0o644)
		}
		os.Chdir(dir)
	}
	ctx, cancel := context.WithCancel(context.Background())
	events := make(chan fsnotify.Event)
	wdone := make(chan struct{}) // closed by the (stubbed) Watcher.Close; the reader below then ends the stream
	verifrt.RegisterWatcher(events, wdone)
	change := DetectDeviceConfigChanges(ctx)
	if !verifrt.Symbolic() {
		time.Sleep(20 * time.Millisecond) // let the real watcher register its directories
	}

	got, closed, sourceDone := 0, false, false
	go func() { // event source (symbolically it plays the library's reader goroutine, the only sender on Events)
		for i := 0; i < n; i++ {
			verifrt.Jitter()
			if verifrt.Symbolic() {
				select {
				case events <- fsnotify.Event{Name: c19Names[names[i]], Op: ops[i]}:
				case <-wdone:
					close(events)
					return
				}
				continue
			}
			p := filepath.Join(userKeyboard, c19Names[names[i]])
			switch ops[i] {
			case fsnotify.Write:
				if attempt%2 == 1 {
					// an in-place modification that leaves the file empty is a modification too
					os.Truncate(p, 0)
				} else if f, err := os.OpenFile(p, os.O_WRONLY|os.O_APPEND, 0); err == nil {
					f.Write([]byte("y"))
					f.Close()
				}
			case fsnotify.Chmod:
				os.Chmod(p, 0o600)
			case fsnotify.Remove:
				os.Remove(p)
			default:
				os.WriteFile(p+".new", []byte("z"), 0o644)
			}
			time.Sleep(3 * time.Millisecond)
		}
		sourceDone = true
		if verifrt.Symbolic() {
			<-wdone
			close(events)
		}
	}()
	stops := verifrt.Bool("consumer.stops") // the consumer stops reading once the application shuts down
	consumerGone := false
	go func() { // consumer: reads until the stream ends (or, if it "stops", until shutdown)
		for {
			verifrt.Jitter()
			if stops {
				select {
				case _, ok := <-change:
					if !ok {
						closed = true
						return
					}
					got++
				case <-ctx.Done():
					consumerGone = true
					return
				}
				continue
			}
			_, ok := <-change
			if !ok {
				closed = true
				return
			}
			got++
		}
	}()
	if doCancel {
		go func() {
			verifrt.Jitter()
			cancel()
		}()
	}
	verifrt.RunConcurrent(k, func() {
		verifrt.Assert(got <= accepted, "C19: modifications of other files (or other operations) produce no notification")
	})
	quiet := !verifrt.AnyEnabled()
	if !verifrt.Symbolic() {
		quiet = true
		os.Chdir(old)
		defer os.RemoveAll(dir)
	}
	if quiet && !doCancel && sourceDone {
		verifrt.Cover("C19: all events processed, no cancellation")
		verifrt.Assert(got == accepted, "C19: every in-place modification of a .toml file is followed by a change notification")
		verifrt.Assert(!closed, "C19: the notification stream stays open while the application runs")
	}
	if quiet && doCancel {
		verifrt.Cover("C19: cancelled and quiescent")
		verifrt.Assert(closed || consumerGone, "C19: after shutdown the watcher stops and its notification stream ends")
		verifrt.Assert(!verifrt.Live("DetectDeviceConfigChanges"), "C19: after shutdown the watcher goroutines terminate")
	}
	if !verifrt.Symbolic() && !doCancel {
		cancel()
	}
}
