//go:build verif

package midi

import (
	"context"

	"github.com/gethiox/HIDI/internal/pkg/midi/driver"
	"github.com/gethiox/HIDI/internal/verifrt"
)

// VerifHarnesses is the replay table (native builds).
var VerifHarnesses = map[string]func(){
	"HarnessC15Relay": HarnessC15Relay,
}

type fakeOutPort struct{ ch chan []byte }

func (f *fakeOutPort) Name() string               { return "verif out" }
func (f *fakeOutPort) Open() error                { return nil }
func (f *fakeOutPort) Close() error               { return nil }
func (f *fakeOutPort) SendChannel() chan<- []byte { return f.ch }

type fakeInPort struct{ ch chan []byte }

func (f *fakeInPort) Name() string                  { return "verif in" }
func (f *fakeInPort) Open() error                   { return nil }
func (f *fakeInPort) Close() error                  { return nil }
func (f *fakeInPort) ReceiveChannel() <-chan []byte { return f.ch }

const relayMax = 4

type relayLog struct {
	rec [relayMax][3]byte
	ln  [relayMax]int
	n   int
}

func (l *relayLog) add(b []byte) {
	if l.n < relayMax {
		l.ln[l.n] = len(b)
		for i := 0; i < 3 && i < len(b); i++ {
			l.rec[l.n][i] = b[i]
		}
	}
	l.n++
}

// HarnessC15Relay: the real ProcessMidiEvents between two emitting devices, the output port, the input port and
// the stream towards the devices. Emitter A sends NA messages, emitter B sends NB (arbitrary bytes, tagged by the
// sender in the status nibble so the port side can tell them apart); the input port delivers NI messages. Under
// every interleaving within K steps: what has arrived is a prefix-respecting merge (per-emitter order, byte for
// byte, no duplicates); at quiescence everything emitted has arrived exactly once, and every input message has
// been handed on in arrival order exactly once.
func HarnessC15Relay() {
	verifrt.Enable("concurrent")
	for attempt := 0; attempt < verifrt.Attempts(); attempt++ {
		relayScenario()
	}
}

func relayScenario() {
	na, nb, ni := verifrt.Param("NA", 2), verifrt.Param("NB", 1), verifrt.Param("NI", 2)
	k := verifrt.Param("K", 16)
	outPort := &fakeOutPort{ch: make(chan []byte, verifrt.Param("CAPP", 1))}
	inPort := &fakeInPort{ch: make(chan []byte, 1)}
	midiOut := make(chan Event, verifrt.Param("CAPO", 1))
	midiIn := make(chan Event, verifrt.Param("CAPI", 1))
	score := &Score{}
	ctx, cancel := context.WithCancel(context.Background())
	defer cancel()

	var sentA, sentB, sentI [relayMax][3]byte
	for i := 0; i < relayMax; i++ {
		// first data byte arbitrary (SYM=1) or fixed; status: A = Note On, B = Control Change, input = Note Off (channel = index)
		da, db, di := byte(0x41+i), byte(0x51+i), byte(0x61+i)
		if verifrt.Param("SYM", 1) != 0 {
			da, db, di = verifrt.U8(verifrt.N("a.d1", i))&0x7f, verifrt.U8(verifrt.N("b.d1", i))&0x7f, verifrt.U8(verifrt.N("i.d1", i))&0x7f
		}
		sentA[i] = [3]byte{0x90 | byte(i), da, byte(0x10 + i)}
		sentB[i] = [3]byte{0xb0 | byte(i), db, byte(0x20 + i)}
		sentI[i] = [3]byte{0x80 | byte(i), di, byte(0x30 + i)}
	}
	var atPort, atDevices relayLog

	ProcessMidiEvents(ctx, driver.Port{Input: inPort, Output: outPort}, midiOut, midiIn, score)

	if na > 0 {
		go func() { // device A
			for i := 0; i < na; i++ {
				verifrt.Jitter()
				midiOut <- Event{sentA[i][0], sentA[i][1], sentA[i][2]}
			}
		}()
	}
	if nb > 0 {
		go func() { // device B
			for i := 0; i < nb; i++ {
				verifrt.Jitter()
				midiOut <- Event{sentB[i][0], sentB[i][1], sentB[i][2]}
			}
		}()
	}
	if na+nb > 0 {
		go func() { // the output port's consumer
			for i := 0; i < na+nb; i++ {
				verifrt.Jitter()
				atPort.add(<-outPort.ch)
			}
		}()
	}
	if ni > 0 {
		go func() { // the input port's producer
			for i := 0; i < ni; i++ {
				verifrt.Jitter()
				inPort.ch <- []byte{sentI[i][0], sentI[i][1], sentI[i][2]}
			}
		}()
		go func() { // the devices' side of the input stream
			for i := 0; i < ni; i++ {
				verifrt.Jitter()
				atDevices.add(<-midiIn)
			}
		}()

	}

	verifrt.RunConcurrent(k, func() {
		// at every step: what arrived at the port is an order-preserving merge of prefixes of A's and B's messages
		ia, ib := 0, 0
		okMerge := true
		for j := 0; j < relayMax; j++ {
			if j >= atPort.n {
				break
			}
			m := atPort.rec[j]
			switch {
			case atPort.ln[j] == 3 && ia < na && m == sentA[ia]:
				ia++
			case atPort.ln[j] == 3 && ib < nb && m == sentB[ib]:
				ib++
			default:
				okMerge = false
			}
		}
		verifrt.Assert(okMerge, "C15: what reaches the output port is, byte for byte, each device's messages in emission order, none duplicated or invented")
		okIn := atDevices.n <= ni
		for j := 0; j < relayMax; j++ {
			if j < atDevices.n {
				okIn = okIn && atDevices.ln[j] == 3 && atDevices.rec[j] == sentI[j]
			}
		}
		verifrt.Assert(okIn, "C15: input-port messages are handed on in arrival order, byte for byte, exactly once")
		if !verifrt.AnyEnabled() || !verifrt.Symbolic() {
			verifrt.Cover("C15: relay quiescent")
			verifrt.Assert(atPort.n == na+nb, "C15: everything the devices emitted has reached the output port")
			verifrt.Assert(atDevices.n == ni, "C15: every input-port message has been handed on")
			verifrt.Assert(int(score.MidiEventsEmitted) == na+nb, "C15: the emitted-message counter equals the number of messages sent to the port")
		}
	})
}
