//go:build verif

package input

import (
	"github.com/gethiox/HIDI/internal/verifrt"
	"github.com/holoplot/go-evdev"
)

// VerifHarnesses is the replay table (native builds).
var VerifHarnesses = map[string]func(){
	"HarnessC20":        HarnessC20,
	"HarnessC20Handler": HarnessC20Handler,
}

// profileType is what HandlerType yields for capProfile(k) (checked against the real code by HarnessC20Handler).
var profileType = [12]HandlerType{DI_TYPE_STD_KBD, DI_TYPE_STD_KBD, DI_TYPE_NKRO_KBD, DI_TYPE_MOUSE, DI_TYPE_SYSTEM, DI_TYPE_MULTIMEDIA,
	DI_TYPE_JOYSTICK, DI_TYPE_JOYSTICK, DI_TYPE_JOYSTICK, DI_TYPE_STD_KBD, DI_TYPE_UNKNOWN, DI_TYPE_UNKNOWN}

// HarnessC20Handler: the real HandlerType on every capability profile (lemma used by HarnessC20), and its
// independence of the order/duplication of the list for a symbolic rotation of the profile.
func HarnessC20Handler() {
	k := verifrt.U8("profile") % 12
	di := DeviceInfo{CapableTypes: capProfile(k)}
	verifrt.Assert(di.HandlerType() == profileType[k], "C20: the handler type of every capability profile is as tabulated")
	// rotate the list by a symbolic amount and duplicate its first element: same type
	src := capProfile(k)
	n := len(src)
	if n > 0 {
		r := int(verifrt.U8("rot"))
		verifrt.Assume(r < n)
		rot := make([]evdev.EvType, 0, 8)
		for i := 0; i < 7; i++ {
			if i < n {
				rot = append(rot, src[(i+r)%n])
			}
		}
		rot = append(rot, src[0])
		d2 := DeviceInfo{CapableTypes: rot}
		verifrt.Assert(d2.HandlerType() == profileType[k], "C20: the handler type does not depend on the order or duplication of the capability list")
	}
	// the type of a handler depends on its own capabilities only, whatever handlers were looked at before
	// (handlers of different devices can carry the same event name over time: event numbers are reused)
	k2 := verifrt.U8("profile2") % 12
	d3 := DeviceInfo{CapableTypes: capProfile(k2)}
	verifrt.Assert(d3.HandlerType() == profileType[k2], "C20: a handler's type depends only on its own capability set, not on handlers seen earlier")
	verifrt.Cover("C20: handler lemma")
}


const c20Max = 4

var c20Types = [8]evdev.EvType{evdev.EV_SYN, evdev.EV_KEY, evdev.EV_REL, evdev.EV_ABS, evdev.EV_MSC, evdev.EV_LED, evdev.EV_REP, evdev.EV_FF}
// physical locations and unique ids: "usb-1.1"+"2" spells the same as "usb-1.12"+"", so a grouping key built by
// gluing the two together would merge different locations
var c20Phys = [3]string{"usb-1.1", "usb-1.12", "usb-2"}
var c20Uniq = [3]string{"", "2", "aa:bb"}
var c20Tags = [c20Max]string{"h0", "h1", "h2", "h3"}

// capProfile: capability lists as real handlers report them (plus reordered / duplicated / odd variants).
func capProfile(k uint8) []evdev.EvType {
	switch k % 12 {
	case 0: // standard keyboard
		return []evdev.EvType{evdev.EV_SYN, evdev.EV_KEY, evdev.EV_MSC, evdev.EV_LED, evdev.EV_REP}
	case 1: // the same, reported in another order with a duplicate
		return []evdev.EvType{evdev.EV_REP, evdev.EV_LED, evdev.EV_MSC, evdev.EV_KEY, evdev.EV_SYN, evdev.EV_KEY}
	case 2: // N-key rollover keyboard
		return []evdev.EvType{evdev.EV_SYN, evdev.EV_KEY, evdev.EV_MSC, evdev.EV_REP}
	case 3: // mouse
		return []evdev.EvType{evdev.EV_SYN, evdev.EV_KEY, evdev.EV_REL, evdev.EV_MSC}
	case 4: // system keys
		return []evdev.EvType{evdev.EV_SYN, evdev.EV_KEY, evdev.EV_MSC}
	case 5: // multimedia
		return []evdev.EvType{evdev.EV_SYN, evdev.EV_KEY, evdev.EV_REL, evdev.EV_ABS, evdev.EV_MSC}
	case 6: // gamepad
		return []evdev.EvType{evdev.EV_SYN, evdev.EV_KEY, evdev.EV_ABS}
	case 7: // gamepad with force feedback
		return []evdev.EvType{evdev.EV_SYN, evdev.EV_KEY, evdev.EV_ABS, evdev.EV_MSC, evdev.EV_FF}
	case 8: // motion sensors
		return []evdev.EvType{evdev.EV_SYN, evdev.EV_ABS, evdev.EV_MSC}
	case 9: // keyboard with integrated pointer (Cuifatis)
		return []evdev.EvType{evdev.EV_SYN, evdev.EV_KEY, evdev.EV_REL, evdev.EV_ABS, evdev.EV_MSC, evdev.EV_LED, evdev.EV_REP}
	case 10:
		return []evdev.EvType{evdev.EV_SYN}
	}
	return nil
}

// typeOracle: joystick if any handler is joystick-like, else keyboard if any is a standard keyboard, else not playable.
func typeOracle(joy, kbd bool) int {
	if joy {
		return 2
	}
	if kbd {
		return 1
	}
	return 0
}

func playableClass(t DeviceType) int {
	switch t {
	case JoystickDevice:
		return 2
	case KeyboardDevice:
		return 1
	}
	return 0
}

// HarnessC20: N handlers with arbitrary capability lists (any order, duplicates allowed) and physical locations,
// in an arbitrary discovery order, through the real Normalize (map iteration order symbolic).
func HarnessC20() {
	verifrt.PermuteMaps(true)
	verifrt.Enable("HandlerTypeFromProperties")
	n := verifrt.Param("N", 3)
	var infos [c20Max]DeviceInfo
	var phys [c20Max]uint8
	var ht [c20Max]HandlerType
	for i := 0; i < n; i++ {
		phys[i] = verifrt.U8(verifrt.N("phys", i))
		verifrt.Assume(phys[i] < 3)
		prof := verifrt.U8(verifrt.N("profile", i)) % 12
		caps := capProfile(prof)
		// the unique id of a handler is arbitrary (handlers of one device may or may not report one): grouping is
		// by physical location only
		uq := verifrt.U8(verifrt.N("uniq", i))
		verifrt.Assume(uq < 3)
		infos[i] = DeviceInfo{Name: "", Phys: c20Phys[phys[i]], Uniq: c20Uniq[uq], Sysfs: c20Tags[i], CapableTypes: caps, Properties: []evdev.EvProp{evdev.EvProp(profileType[prof])}}
		ht[i] = infos[i].HandlerType()
	}
	// discovery order: an arbitrary permutation of the n handlers
	var order [c20Max]int
	var used [c20Max]bool
	list := make([]DeviceInfo, 0, c20Max)
	for i := 0; i < n; i++ {
		o := int(verifrt.U8(verifrt.N("order", i)))
		verifrt.Assume(o < n)
		verifrt.Assume(!used[o])
		used[o] = true
		order[i] = o
		list = append(list, infos[o])
	}

	devs := Normalize(list)

	// where did each handler end up?
	var count [c20Max]int
	var devOf [c20Max]int
	for di, d := range devs {
		for _, h := range d.Handlers {
			for i := 0; i < n; i++ {
				if h.DeviceInfo.Sysfs == c20Tags[i] {
					count[i]++
					devOf[i] = di
				}
			}
		}
	}
	for i := 0; i < n; i++ {
		verifrt.Assert(count[i] == 1, "C20: every discovered handler ends up in exactly one logical device")
	}
	for i := 0; i < n; i++ {
		for j := i + 1; j < n; j++ {
			if count[i] == 1 && count[j] == 1 {
				verifrt.Assert((devOf[i] == devOf[j]) == (phys[i] == phys[j]), "C20: handlers are grouped together exactly when they report the same physical location")
			}
		}
	}
	for i := 0; i < n; i++ {
		if count[i] != 1 {
			continue
		}
		joy, kbd := false, false
		for j := 0; j < n; j++ {
			if phys[j] == phys[i] {
				joy = joy || ht[j] == DI_TYPE_JOYSTICK
				kbd = kbd || ht[j] == DI_TYPE_STD_KBD
			}
		}
		got := devs[devOf[i]].DeviceType
		verifrt.Assert(playableClass(got) == typeOracle(joy, kbd), "C20: device type is joystick if any handler is joystick-like, else keyboard if any is a standard keyboard, else not playable - in every discovery order")
		if joy && kbd {
			verifrt.Cover("C20: composite device (keyboard and joystick handlers)")
		}
	}
	verifrt.Cover("C20: end")
}
