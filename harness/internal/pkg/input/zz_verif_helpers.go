//go:build verif

package input

// VerifDeviceInfo builds a DeviceInfo with an event-node name (the field is unexported); used by harnesses of
// other packages.
func VerifDeviceInfo(name, event string) DeviceInfo {
	return DeviceInfo{Name: name, eventName: event}
}
