//go:build verif

package utils

import (
	"github.com/gethiox/HIDI/internal/verifrt"
)

// nativePause gives the other goroutines time to run in native replays (no effect on the symbolic run, where the
// scheduler is a solver variable).
func nativePause() {
	if !verifrt.Symbolic() {
		verifrt.Jitter()
		verifrt.Jitter()
	}
}

// VerifHarnesses is the replay table (native builds).
var VerifHarnesses = map[string]func(){
	"HarnessC15Fan": HarnessC15Fan,
}

const fanMax = 4

type fanLog struct {
	rec  [fanMax]int
	n    int
	done bool // the device's goroutine got past DespawnOutput
	att  bool // attached (SpawnOutput returned)
}

// HarnessC15Fan: the real DynamicFanOut (run / SpawnOutput / DespawnOutput) with a producer of M numbered
// messages and two devices: A is attached before the first message, B attaches at an arbitrary moment; each reads
// an arbitrary number of messages (prompt, slow or stopped is the scheduler's choice) and then detaches.
func HarnessC15Fan() {
	verifrt.Enable("concurrent")
	for attempt := 0; attempt < verifrt.Attempts(); attempt++ {
		fanScenario()
	}
}

func fanScenario() {
	m := verifrt.Param("M", 2)
	capIn := verifrt.Param("CAP", 1)
	k := verifrt.Param("K", 14)
	in := make(chan int, capIn)
	f := NewDynamicFanOut[int](in)
	var a, b fanLog
	readsA, readsB := int(verifrt.U8("reads.a")), int(verifrt.U8("reads.b"))
	verifrt.Assume(readsA <= m && readsB <= m)
	idA, chA, errA := f.SpawnOutput()
	verifrt.Assume(errA == nil)
	a.att = true
	go func() { // producer
		for i := 1; i <= m; i++ {
			verifrt.Jitter()
			in <- i
		}
	}()
	go func() { // device A
		verifrt.Jitter()
		for r := 0; r < readsA; r++ {
			v, ok := <-chA
			verifrt.Assert(ok, "C15: a connected device's input stream is not ended by another device's removal")
			if !ok {
				a.done = true
				return
			}
			if a.n < fanMax {
				a.rec[a.n] = v
			}
			a.n++
		}
		nativePause()
		verifrt.Assert(f.DespawnOutput(idA) == nil, "C15: removing a connected device succeeds")
		a.done = true
	}()
	go func() { // device B
		verifrt.Jitter()
		id, ch, err := f.SpawnOutput()
		if err != nil {
			b.done = true
			return
		}
		b.att = true
		for r := 0; r < readsB; r++ {
			v, ok := <-ch
			verifrt.Assert(ok, "C15: a connected device's input stream is not ended by another device's removal")
			if !ok {
				b.done = true
				return
			}
			if b.n < fanMax {
				b.rec[b.n] = v
			}
			b.n++
		}
		nativePause()
		verifrt.Assert(f.DespawnOutput(id) == nil, "C15: removing a connected device succeeds")
		b.done = true
	}()
	var c fanLog
	nDev := verifrt.Param("NDEV", 2)
	readsC := int(verifrt.U8("reads.c"))
	verifrt.Assume(readsC <= m)
	c.done = nDev < 3
	if nDev >= 3 {
		go func() { // device C
			verifrt.Jitter()
			verifrt.Jitter()
			id, ch, err := f.SpawnOutput()
			if err != nil {
				c.done = true
				return
			}
			c.att = true
			for r := 0; r < readsC; r++ {
				v, ok := <-ch
				verifrt.Assert(ok, "C15: a connected device's input stream is not ended by another device's removal")
				if !ok {
					c.done = true
					return
				}
				if c.n < fanMax {
					c.rec[c.n] = v
				}
				c.n++
			}
			nativePause()
			verifrt.Assert(f.DespawnOutput(id) == nil, "C15: removing a connected device succeeds")
			c.done = true
		}()
	}
	monitor := func() {
		for i := 0; i+1 < fanMax; i++ {
			if i+1 < c.n {
				verifrt.Assert(c.rec[i+1] == c.rec[i]+1, "C15: attaching or detaching one device never loses, duplicates or reorders messages for another")
			}
		}
		verifrt.Assert(c.n <= m, "C15: no message is delivered twice")
		// A was attached before the first message: it sees 1,2,3,... in order, without gap or duplicate
		for i := 0; i < fanMax; i++ {
			if i < a.n {
				verifrt.Assert(a.rec[i] == i+1, "C15: a device attached from the start receives every input message exactly once, in order")
			}
		}
		// B sees a contiguous run of the input sequence
		for i := 0; i+1 < fanMax; i++ {
			if i+1 < b.n {
				verifrt.Assert(b.rec[i+1] == b.rec[i]+1, "C15: attaching or detaching one device never loses, duplicates or reorders messages for another")
			}
		}
		verifrt.Assert(a.n <= m && b.n <= m, "C15: no message is delivered twice")
	}
	verifrt.RunConcurrent(k, monitor)
	stuck := !verifrt.AnyEnabled() && verifrt.BlockedIn("DespawnOutput")
	if !verifrt.Symbolic() {
		// natively everything that can run has run by now: a device goroutine that is not through is stuck
		stuck = !(a.done && b.done && c.done)
	}
	verifrt.Assert(!stuck, "C15: removing a device always completes, even if that device has stopped reading")
	if a.done && b.done {
		verifrt.Cover("C15: both devices detached")
	}

}
