//go:build verif

// Package verifrt is the harness runtime. Under the symbolic executor (gosmt) every function
// here is an intrinsic and the bodies below are ignored; in a native build the bodies read
// the counterexample written by the solver so that the same harness replays against the real code.
package verifrt

import (
	"encoding/json"
	"runtime"
	"strings"

	"fmt"
	toml "github.com/pelletier/go-toml/v2"
	openrgb "github.com/realbucksavage/openrgb-go"
	"math"
	"os"
	"strconv"
	"sync"
	"time"
)

type replayFile struct {
	Harness string            `json:"harness"`
	Params  map[string]int    `json:"params"`
	Values  map[string]string `json:"values"` // name -> decimal uint64 (bit pattern) or "true"/"false"
}

var replay replayFile
var loaded bool

// Failure is the panic payload used for assertion failures and violated assumptions.
type Failure struct {
	Kind string // "assert" | "assume"
	Msg  string
}

func (f Failure) Error() string { return f.Kind + ": " + f.Msg }

func load() {
	if loaded {
		return
	}
	loaded = true
	replay.Values = map[string]string{}
	replay.Params = map[string]int{}
	p := os.Getenv("VERIF_REPLAY")
	if p == "" {
		return
	}
	data, err := os.ReadFile(p)
	if err != nil {
		panic(err)
	}
	if err := json.Unmarshal(data, &replay); err != nil {
		panic(err)
	}
}

// HarnessName returns the harness selected by the replay file.
func HarnessName() string { load(); return replay.Harness }

func bits(name string) uint64 {
	load()
	s, ok := replay.Values[name]
	if !ok {
		return 0
	}
	switch s {
	case "true":
		return 1
	case "false":
		return 0
	}
	v, err := strconv.ParseUint(s, 10, 64)
	if err != nil {
		panic(fmt.Sprintf("verifrt: bad value for %s: %q", name, s))
	}
	return v
}

// N builds a variable name from a base and indices ("key", 3 -> "key_3").
func N(base string, idx ...int) string {
	for _, i := range idx {
		base += "_" + strconv.Itoa(i)
	}
	return base
}

func U8(name string) uint8    { return uint8(bits(name)) }
func U16(name string) uint16  { return uint16(bits(name)) }
func U32(name string) uint32  { return uint32(bits(name)) }
func U64(name string) uint64  { return bits(name) }
func I8(name string) int8     { return int8(bits(name)) }
func I16(name string) int16   { return int16(bits(name)) }
func I32(name string) int32   { return int32(bits(name)) }
func I64(name string) int64   { return int64(bits(name)) }
func Int(name string) int     { return int(int64(bits(name))) }
func Bool(name string) bool   { return bits(name) != 0 }
func F64(name string) float64 { return math.Float64frombits(bits(name)) }

// Str returns an arbitrary string of at most maxLen bytes.
func Str(name string, maxLen int) string {
	n := int(uint8(bits(name + ".len")))
	if n > maxLen {
		n = maxLen
	}
	b := make([]byte, n)
	for i := range b {
		b[i] = byte(bits(name + ".b" + strconv.Itoa(i)))
	}
	return string(b)
}

// Param returns a concrete bound chosen by the check configuration (same value symbolically and natively).
func Param(name string, def int) int {
	load()
	if v, ok := replay.Params[name]; ok {
		return v
	}
	return def
}

func Assume(b bool) {
	if !b {
		panic(Failure{"assume", "assumption violated"})
	}
}

func Assert(b bool, msg string) {
	if !b {
		panic(Failure{"assert", msg})
	}
}

// Cover marks a point that must be reachable (vacuity guard).
func Cover(label string) {}

// PermuteMaps asks the symbolic executor to range over small maps in a symbolic order.
func PermuteMaps(on bool) {}

// SetUnwind sets the bound on symbolic loop decisions.
func SetUnwind(n int) {}

// Symbolic reports whether the harness runs under the symbolic executor.
func Symbolic() bool { return false }

// Known names a recorded known finding: pred describes (over the harness inputs) the inputs on which the
// finding manifests. Violations are reported only outside all known predicates; each known predicate must
// still be reachable together with a violation.
func Known(id string, pred bool) {}

// Run executes the harness selected by the replay file and reports the outcome in one line.
func Run(table map[string]func()) (line string, failed bool) {
	load()
	h, ok := table[replay.Harness]
	if !ok {
		return "REPLAY-RESULT kind=error msg=unknown harness " + replay.Harness, true
	}
	defer func() {
		if r := recover(); r != nil {
			if f, ok := r.(Failure); ok {
				line = "REPLAY-RESULT kind=" + f.Kind + " msg=" + f.Msg
				failed = f.Kind == "assert"
				return
			}
			line = fmt.Sprintf("REPLAY-RESULT kind=panic msg=%v", r)
			failed = true
		}
	}()
	h()
	return "REPLAY-RESULT kind=ok", false
}

// TOMLBytes turns a decoded-configuration value into file content. Natively the value is marshalled to TOML and
// goes through the real decoder; symbolically the decoder is a stub that yields exactly this value (or fails).
func TOMLBytes(v interface{}) []byte {
	b, err := toml.Marshal(v)
	if err != nil {
		panic(Failure{"assume", "value cannot be written as TOML: " + err.Error()})
	}
	return b
}

// Enable switches on an optional summary/stub of the symbolic executor (no effect natively).
func Enable(flag string) {}

// ---- concurrency (E2) ----

// RunConcurrent: symbolically, the goroutines spawned so far are run for k scheduler steps under every
// interleaving (the schedule is a solver variable) and monitor is evaluated after every step. Natively the
// goroutines simply run; the call waits for them to quiesce and evaluates monitor once.
func RunConcurrent(k int, monitor func()) {
	time.Sleep(time.Duration(Param("QUIESCE_MS", 30)) * time.Millisecond)
	if monitor != nil {
		monitor()
	}
}

// AnyEnabled: some goroutine can take a step (symbolic only; natively unknown, reported as true).
func AnyEnabled() bool { return true }

// Live: a goroutine running a function whose name contains substr has not terminated (symbolic only).
func Live(substr string) bool {
	// natively: some goroutine's stack still shows a function whose name contains substr (polled for a while,
	// a goroutine that is about to return needs a moment)
	for i := 0; i < 20; i++ {
		buf := make([]byte, 1<<20)
		n := runtime.Stack(buf, true)
		if !strings.Contains(string(buf[:n]), substr) {
			return false
		}
		time.Sleep(10 * time.Millisecond)
	}
	return true
}

// BlockedIn: a goroutine is stopped inside a function whose name contains substr and cannot proceed.
func BlockedIn(substr string) bool { return false }

// Attempts: natively, schedule-dependent harnesses repeat their scenario under random jitter (the solver's
// counterexample fixes the inputs, the interleaving has to be found again); symbolically one pass covers all.
func Attempts() int { return Param("ATTEMPTS", 150) }

var jitterState uint64 = 88172645463325252

// Jitter sleeps for a pseudo-random 0-2 ms (native only).
func Jitter() {
	jitterState ^= jitterState << 13
	jitterState ^= jitterState >> 7
	jitterState ^= jitterState << 17
	time.Sleep(time.Duration(jitterState%2000) * time.Microsecond)
}

// RegisterWatcher tells the symbolic fsnotify stub which channel its watcher hands out (no effect natively,
// where the real watcher observes real files).
func RegisterWatcher(events interface{}, done interface{}) {}

// Protect declares that object (a map or a pointer) may only be touched by a goroutine that holds mu
// (lock-discipline check of the symbolic concurrent runs; no effect natively, where `go test -race` applies).
func Protect(object interface{}, mu *sync.Mutex) {}

// ProtectRW is Protect for state that several goroutines write: reads need the mutex as well. Counterexamples are
// confirmed natively with a race-detector build of the replay binary (harness spec "race": true).
func ProtectRW(object interface{}, mu *sync.Mutex) {}

// TOMLBytesFail is TOMLBytes with a chosen decoder outcome: 0 the text decodes to v; 1 a syntax error (the
// library reports a *toml.DecodeError); 2 an unknown field (*toml.StrictMissingError); 3 a value of the wrong kind
// for a known field (a plain error that is neither); 4 a date where a number is expected (the library panics).
func TOMLBytesFail(v interface{}, kind int) []byte {
	b := TOMLBytes(v)
	switch kind {
	case 1:
		return append(b, []byte("\n= broken [\n")...)
	case 2:
		return append([]byte("verif_unknown_field = 1\n"), b...)
	case 3:
		// a value of the wrong kind for a known field (go-toml reports a plain error for it, neither a
		// DecodeError nor a StrictMissingError): a top-level string field is given an integer
		lines := strings.Split(string(b), "\n")
		for i, l := range lines {
			if j := strings.Index(l, " = '"); j > 0 && !strings.HasPrefix(l, "[") && !strings.HasPrefix(l, " ") {
				lines[i] = l[:j] + " = 0"
				return []byte(strings.Join(lines, "\n"))
			}
			if j := strings.Index(l, " = \""); j > 0 && !strings.HasPrefix(l, "[") && !strings.HasPrefix(l, " ") {
				lines[i] = l[:j] + " = 0"
				return []byte(strings.Join(lines, "\n"))
			}
			if strings.HasPrefix(l, "[") {
				break
			}
		}
		return append([]byte("collision_mode = 0\n"), b...)
	case 4:
		// a date where a number is expected: go-toml v2.0.3 panics in reflect.Set instead of returning an error
		lines := strings.Split(string(b), "\n")
		for i, l := range lines {
			if j := strings.Index(l, " = "); j > 0 && !strings.HasPrefix(strings.TrimSpace(l), "[") {
				if _, err := strconv.Atoi(strings.TrimSpace(l[j+3:])); err == nil {
					lines[i] = l[:j] + " = 1979-05-27"
					return []byte(strings.Join(lines, "\n"))
				}
			}
		}
		return append([]byte("[defaults]\noctave = 1979-05-27\n"), b...)
	}
	return b
}

// TOMLToken is TOMLBytesFail for harnesses that place several configuration files into the (symbolic or real) file
// system: symbolically each call yields a distinct 2-byte token that the decoder stub recognises when the file is
// read back; natively it is the real TOML text (or the broken text of the given kind).
func TOMLToken(v interface{}, kind int) []byte { return TOMLBytesFail(v, kind) }

// LedCapture receives the frames sent to the (stubbed or fake) OpenRGB server.
type LedCapture struct {
	N      int
	Frames [4][]openrgb.Color // the first frames
	Last   []openrgb.Color    // the most recent frame
}

// RegisterLED tells the symbolic OpenRGB stubs which controller to report, where to record frames and how to end
// the LED loop after the first frame (natively a fake TCP server started by the harness does all that).
func RegisterLED(dev *openrgb.Device, capture *LedCapture, cancel func()) {}
