//go:build verif

package main

import (
	"os"
	"path/filepath"
	"time"

	"github.com/gethiox/HIDI/internal/verifrt"
)

// VerifHarnesses is the replay table (native builds).
var VerifHarnesses = map[string]func(){
	"HarnessHIDIConfig": HarnessHIDIConfig,
}

// HarnessHIDIConfig: arbitrary decoded hidi.toml (every rate any 64-bit integer, or a read/decode failure):
// LoadHIDIConfig returns a configuration or an error, never panics; accepted rates are positive.
func HarnessHIDIConfig() {
	var raw HIDIConfigRaw
	raw.HIDI.PoolRate = int(verifrt.I64("pool_rate"))
	raw.HIDI.DiscoveryRate = int(verifrt.I64("discovery_rate"))
	raw.HIDI.StabilizationPeriod = int(verifrt.I64("stabilization_period"))
	raw.HIDI.LogViewRate = int(verifrt.I64("log_view_rate"))
	raw.HIDI.LogBufferSize = int(verifrt.I64("log_buffer_size"))
	path := "hidi.toml"
	// decoder outcome: decodes / syntax error / unknown field / value of the wrong kind / the library panics
	data := verifrt.TOMLBytesFail(&raw, int(verifrt.U8("toml.fail")%5))
	if !verifrt.Symbolic() {
		dir, err := os.MkdirTemp("", "verif-hidi-")
		if err != nil {
			panic(err)
		}
		defer os.RemoveAll(dir)
		path = filepath.Join(dir, "hidi.toml")
		if verifrt.Bool("file.missing") {
			path = filepath.Join(dir, "missing.toml")
		} else if err := os.WriteFile(path, data, 0o644); err != nil {
			panic(err)
		}
	}
	cfg, err := LoadHIDIConfig(path)
	if err != nil {
		verifrt.Cover("C09: hidi.toml rejected")
		return
	}
	verifrt.Cover("C09: hidi.toml accepted")
	verifrt.Assert(cfg.HIDI.EVThrottling == time.Second/time.Duration(raw.HIDI.PoolRate), "C09: accepted hidi.toml yields the configured event rate")
}
