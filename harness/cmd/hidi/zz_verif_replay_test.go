//go:build verif

package main

import (
	"fmt"
	"testing"

	"github.com/gethiox/HIDI/internal/verifrt"
)

func TestVerifReplay(t *testing.T) {
	line, failed := verifrt.Run(VerifHarnesses)
	fmt.Println(line)
	if failed {
		t.Fail()
	}
}
