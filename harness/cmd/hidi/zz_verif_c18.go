//go:build verif

package main

import (
	"io"
	"io/fs"
	"os"
	"strings"

	"github.com/gethiox/HIDI/internal/verifrt"
)

func init() {
	VerifHarnesses["HarnessC18"] = HarnessC18
}

const c18MaxPaths = 24

func c18Write(path string, data []byte) {
	f, err := os.OpenFile(path, os.O_CREATE|os.O_WRONLY|os.O_TRUNC, 0o666)
	verifrt.Assume(err == nil)
	_, err = f.Write(data)
	verifrt.Assume(err == nil)
	f.Close()
}

func c18Read(path string) (exists bool, data []byte) {
	f, err := os.OpenFile(path, os.O_RDONLY, 0)
	if err != nil {
		return false, nil
	}
	data, err = io.ReadAll(f)
	f.Close()
	return err == nil, data
}

func sameBytes(a, b []byte) bool {
	if len(a) != len(b) {
		return false
	}
	for i := range a {
		if a[i] != b[i] {
			return false
		}
	}
	return true
}

// arbitrary content: symbolically at most 3 bytes against 2-byte templates (shorter / same length / longer, equal
// prefix or not); natively the same classes are realised relative to the real template bytes
func c18Content(name string, tpl []byte) []byte {
	n := int(verifrt.U8(name+".len")) % 4
	if !verifrt.Symbolic() {
		switch n {
		case 0:
			return []byte{}
		case 1:
			if len(tpl) > 1 {
				return append([]byte{}, tpl[:len(tpl)/2]...) // truncated
			}
			return []byte{'t'}
		case 2:
			m := append([]byte{}, tpl...)
			if len(m) > 0 {
				m[len(m)-1] ^= 1 // modified, same length
			} else {
				m = []byte{'m'}
			}
			return m
		}
		// longer than the template: if the solver's third byte is white space, the real file is the template plus
		// that byte (a difference in trailing white space only), otherwise the template plus a comment line
		if b2 := verifrt.U8(verifrt.N(name+".b", 2)); b2 == ' ' || (b2 >= '\t' && b2 <= '\r') {
			return append(append([]byte{}, tpl...), b2)
		}
		if b0 := verifrt.U8(verifrt.N(name+".b", 0)); b0 == ' ' || (b0 >= '\t' && b0 <= '\r') {
			return append([]byte{b0}, tpl...) // leading white space only
		}
		return append(append([]byte{}, tpl...), '\n', '#', 'x')
	}
	b := make([]byte, 0, 3)
	for i := 0; i < 3; i++ {
		if i < n {
			b = append(b, verifrt.U8(verifrt.N(name+".b", i)))
		}
	}
	return b
}

// HarnessC18: start-up upkeep on an arbitrary state of the configuration directory: every template file
// independently absent / empty / arbitrary content / intact, factory directories present or not, user files and
// extra files present; or no directory at all. Crash states (file created but empty, partially written, directory
// made but files missing) are members of this family, so "a later run restores" is the same statement.
func HarnessC18() {
	// the embedded template tree (real go:embed data natively; the same files read from the source tree symbolically)
	var paths [c18MaxPaths]string
	var isDir [c18MaxPaths]bool
	n := 0
	fs.WalkDir(templateConfig, configDir, func(path string, d fs.DirEntry, err error) error {
		if n < c18MaxPaths {
			paths[n], isDir[n] = path, d.IsDir()
			n++
		}
		return nil
	})
	verifrt.Assume(n > 0 && n < c18MaxPaths)
	userFile := configDir + "/user/keyboard/my.toml"
	extraFactory := configDir + "/factory/keyboard/zz_extra.toml"
	if !verifrt.Symbolic() {
		dir, err := os.MkdirTemp("", "verif-c18-")
		if err != nil {
			panic(err)
		}
		old, _ := os.Getwd()
		os.Chdir(dir)
		defer func() { os.Chdir(old); os.RemoveAll(dir) }()
	}
	// a stray side file next to the first factory file (what an interrupted replace-by-rename would leave behind)
	sideFile := ""
	for i := 0; i < n; i++ {
		if !isDir[i] && strings.HasPrefix(paths[i], configDir+"/factory/") && strings.HasSuffix(paths[i], ".toml") && sideFile == "" {
			sideFile = paths[i] + [3]string{".new", ".tmp", ".bak"}[verifrt.Param("SIDE", 0)%3]
		}
	}
	// make every path known before anything depends on symbolic choices
	os.Stat(userFile)
	os.Stat(extraFactory)
	if sideFile != "" {
		os.Stat(sideFile)
	}

	wholeTree := verifrt.Bool("tree.present")
	if t := verifrt.Param("TREE", -1); t >= 0 {
		wholeTree = t == 1
	}
	var pre [c18MaxPaths][]byte
	var preExists [c18MaxPaths]bool
	var userData, extraData []byte
	hasUser, hasExtra := false, false
	if wholeTree {
		for i := 0; i < n; i++ {
			p := paths[i]
			inFactory := strings.HasPrefix(p, configDir+"/factory")
			if isDir[i] {
				// the top directory and the user tree exist; factory directories may be missing
				if !inFactory || verifrt.Bool(verifrt.N("dir.present", i)) {
					preExists[i] = os.Mkdir(p, 0o777) == nil
				}
				continue
			}
			// a file can only exist if its directory does (otherwise creating it fails and it stays absent)
			switch verifrt.U8(verifrt.N("file.state", i)) % 3 {
			case 0: // absent
			case 1: // intact
				data, err := fs.ReadFile(templateConfig, p)
				verifrt.Assume(err == nil)
				f, err := os.OpenFile(p, os.O_CREATE|os.O_WRONLY|os.O_TRUNC, 0o666)
				if err == nil {
					f.Write(data)
					f.Close()
					preExists[i], pre[i] = true, data
				}
			default: // truncated / modified / longer: arbitrary content
				tplData, _ := fs.ReadFile(templateConfig, p)
				data := c18Content(verifrt.N("file.data", i), tplData)
				f, err := os.OpenFile(p, os.O_CREATE|os.O_WRONLY|os.O_TRUNC, 0o666)
				if err == nil {
					f.Write(data)
					f.Close()
					preExists[i], pre[i] = true, data
				}
			}
		}
		hasUser, hasExtra = verifrt.Bool("user.file"), verifrt.Bool("extra.file")
		if hasUser {
			userData = c18Content("user.data", []byte("user"))
			f, err := os.OpenFile(userFile, os.O_CREATE|os.O_WRONLY|os.O_TRUNC, 0o666)
			if err == nil {
				f.Write(userData)
				f.Close()
			} else {
				hasUser = false
			}
		}
		if sideFile != "" && verifrt.Bool("side.file") {
			f, err := os.OpenFile(sideFile, os.O_CREATE|os.O_WRONLY|os.O_TRUNC, 0o666)
			if err == nil {
				f.Write(c18Content("side.data", []byte("side")))
				f.Close()
				verifrt.Cover("C18: stray side file present")
			}
		}
		if hasExtra {
			extraData = c18Content("extra.data", []byte("extra"))
			f, err := os.OpenFile(extraFactory, os.O_CREATE|os.O_WRONLY|os.O_TRUNC, 0o666)
			if err == nil {
				f.Write(extraData)
				f.Close()
			} else {
				hasExtra = false
			}
		}
	}

	err := updateHIDIConfiguration()
	verifrt.Assert(err == nil, "C18: start-up upkeep succeeds whatever state the directory is in")
	if err != nil {
		return
	}
	if wholeTree {
		verifrt.Cover("C18: existing directory")
	} else {
		verifrt.Cover("C18: no directory")
	}
	var after [c18MaxPaths][]byte
	for i := 0; i < n; i++ {
		p := paths[i]
		if isDir[i] {
			continue
		}
		ok, data := c18Read(p)
		after[i] = data
		tpl, terr := fs.ReadFile(templateConfig, p)
		verifrt.Assume(terr == nil)
		inFactory := strings.HasPrefix(p, configDir+"/factory")
		isBlacklist := p == configDir+"/device blacklist.txt"
		switch {
		case inFactory:
			verifrt.Assert(ok && sameBytes(data, tpl), "C18: every built-in factory file is present and identical to its template after upkeep")
		case !wholeTree:
			verifrt.Assert(ok && sameBytes(data, tpl), "C18: the complete template tree is created when the directory does not exist")
		case isBlacklist:
			if preExists[i] {
				verifrt.Assert(ok && sameBytes(data, pre[i]), "C18: an existing device blacklist is left untouched")
			} else {
				verifrt.Assert(ok && sameBytes(data, tpl), "C18: the blacklist is created when missing")
			}
		default: // hidi.toml, user tree
			if preExists[i] {
				verifrt.Assert(ok && sameBytes(data, pre[i]), "C18: hidi.toml and files under user/ are left byte-for-byte untouched")
			} else {
				verifrt.Assert(!ok, "C18: upkeep of an existing directory creates nothing outside factory/ and the blacklist")
			}
		}
	}
	if hasUser {
		ok, data := c18Read(userFile)
		verifrt.Assert(ok && sameBytes(data, userData), "C18: hidi.toml and files under user/ are left byte-for-byte untouched")
	}
	if hasExtra {
		ok, data := c18Read(extraFactory)
		verifrt.Assert(ok && sameBytes(data, extraData), "C18: extra files are left untouched")
	}
	// running it again changes nothing
	err = updateHIDIConfiguration()
	verifrt.Assert(err == nil, "C18: a second run succeeds")
	for i := 0; i < n; i++ {
		if isDir[i] {
			continue
		}
		_, data := c18Read(paths[i])
		verifrt.Assert(sameBytes(data, after[i]), "C18: running upkeep again changes nothing")
	}
}
