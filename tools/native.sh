#!/bin/sh
# usage: tools/native.sh <pkg> <replay.json>  — builds the native replay binary of a package (overlay, tag verif)
# and runs one replay file; prints the test output (debug aid, not used by the checks).
export GOFLAGS=-mod=mod GOPROXY=off GOSUMDB=off GOTOOLCHAIN=local CGO_ENABLED=0
pkg="$1"; file="$2"
ov=$(mktemp /tmp/verif-ov.XXXXXX.json)
python3 - "$ov" <<'PY'
import os,sys,json
m={}
for root,_,files in os.walk('/verif/harness'):
    for f in files:
        src=os.path.join(root,f)
        m[os.path.join('/repo',os.path.relpath(src,'/verif/harness'))]=src
json.dump({"Replace":m},open(sys.argv[1],'w'))
PY
bin=$(mktemp /tmp/verif-native.XXXXXX)
(cd /repo && go test -c -vet=off -tags verif -overlay "$ov" -o "$bin" ./$pkg) || exit 2
d=$(mktemp -d /tmp/verif-run.XXXXXX); cd "$d"
VERIF_REPLAY="$file" "$bin" -test.run '^TestVerifReplay$' -test.timeout 60s -test.v
rc=$?
cd /; rm -rf "$d" "$bin" "$ov"
exit $rc
