#!/bin/bash
# usage: tools/confirm_seed.sh <out-dir of agent> <seed-name> <property>
# Confirms in a fresh scratch worktree: existing suite passes with the patch, demo fails with it and passes without.
out="$1"; name="$2"; prop="$3"
export GOFLAGS=-mod=mod GOPROXY=off GOSUMDB=off GOTOOLCHAIN=local
wt=/tmp/seedchk/$name
rm -rf "$wt"; git -C /repo worktree prune; git -C /repo worktree add --detach "$wt" HEAD >/dev/null 2>&1 || exit 2
demo_rel=$(head -1 "$out/demo_path.txt" | tr -d ' \r')
demo_file=$(ls "$out"/*_test.go 2>/dev/null | head -1)
[ -d "$out/$(dirname $demo_rel)" ] && demo_file="$out/$demo_rel"
pkg=./$(dirname "$demo_rel")
cd "$wt"
mkdir -p "$wt/$(dirname "$demo_rel")"
cp "$demo_file" "$wt/$demo_rel"
tests=$(grep -o "^func Test[A-Za-z0-9_]*" "$demo_file" | sed 's/func //' | paste -sd'|')
go test -vet=off -count=1 -run "^($tests)\$" $pkg >/tmp/seedchk/$name.clean.log 2>&1; clean=$?
git apply "$out/patch.diff" || { echo "PATCH DOES NOT APPLY"; exit 2; }
go test -vet=off -count=1 -run "^($tests)\$" $pkg >/tmp/seedchk/$name.mut.log 2>&1; mut=$?
rm -f "$wt/$demo_rel"
VERIF_REPO="$wt" /verif/tools/baseline.sh > /tmp/seedchk/$name.base.log 2>&1; base=$?
echo "seed=$name demo_clean_exit=$clean demo_mutant_exit=$mut baseline_with_patch_exit=$base ($(tail -1 /tmp/seedchk/$name.base.log))"
if [ $clean -eq 0 ] && [ $mut -ne 0 ] && [ $base -eq 0 ]; then
  d=/verif/seeded/$name; mkdir -p $d
  cp "$out/patch.diff" $d/patch.diff; cp "$demo_file" $d/; cp "$out/notes.md" $d/notes.md 2>/dev/null
  echo "$demo_rel" > $d/demo_path.txt
  echo CONFIRMED
else
  echo "NOT CONFIRMED"; tail -5 /tmp/seedchk/$name.clean.log
fi
cd /; git -C /repo worktree remove --force "$wt"
