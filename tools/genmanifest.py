#!/usr/bin/env python3
"""Regenerates MANIFEST.json from checks.json + the table below (keeps it valid at all times)."""
import json
checks=json.load(open('/verif/checks.json'))
props=[json.loads(l) for l in open('/verif/properties.jsonl')]
TECH={
 'C01':'symbolic execution of go/ssa -> SMT: inductive step from an arbitrary invariant state + disconnect step (z3/cvc5), native replay',
 'C02':'symbolic execution of go/ssa -> SMT: inductive step (tracker pinned to press), native replay',
 'C03':'symbolic execution of go/ssa -> SMT: inductive step vs collision-mode table, native replay',
 'C04':'symbolic execution of go/ssa -> SMT: bounded equivalence with 64-bit reference (single press full range + action step)',
 'C13':'symbolic execution of go/ssa -> SMT: panic step from arbitrary invariant state',
 'C14':'symbolic execution of go/ssa -> SMT: inductive step with symbolic exit sequence',
}
NOTE='trusted: the gosmt SSA->SMT encoder (own code, /verif/engine), go/ssa v0.29.0, z3 5.1/cvc5 1.0 (portfolio; any (error line = inconclusive), the stubs named in the evidence (logging, sync, context, sort.Ints), linux/amd64 widths. Bounds (keys, mappings, string lengths, unwinding) are per harness in evidence; everything beyond them is outside the claim.'
NA=json.load(open('/verif/not_applicable.json')) if __import__('os').path.exists('/verif/not_applicable.json') else {}
m={"version":1,
 "setup_cmd":"cd engine && GOFLAGS=-mod=mod GOPROXY=off GOSUMDB=off GOTOOLCHAIN=local go build -o ../bin/gosmt ./cmd/gosmt",
 "hooks":{"guard":"verif","enable":"harness files live in /verif/harness and are injected with go/packages Overlay (symbolic run) and go test -overlay -tags verif (native replay); nothing under /repo is edited by the machinery","baseline_off_cmd":"/verif/tools/baseline.sh","source_commits":[],"add_only":True},
 "engines":[{"name":"gosmt","path":"engine","serves_properties":sorted(checks.keys()),"kind_free_text":"own symbolic executor for Go SSA (go/ssa, state merging at post-dominators) -> SMT-LIB2 (QF_BV + FP), z3/cvc5 portfolio, native replay of counterexamples via go test -overlay"}],
 "checks":[], "not_applicable":[]}
for p in props:
    i=p['id']
    if i in checks:
        c=checks[i]
        m['checks'].append({"property_id":i,"quick_cmd":"./check %s --tier quick"%i,"thorough_cmd":"./check %s --tier thorough"%i,
          "evidence_file":"evidence/%s.json"%i,"replay_cmd_template":"./check %s --replay {path}"%i,"engine":"gosmt",
          "level_claimed":{"category":c['level'],"text":c['explanation'],"design_ref":"DESIGN.md §6 "+i},
          "level_note":NOTE+" Assumptions: "+'; '.join(c['assumptions']),
          "technique":TECH.get(i,'symbolic execution of go/ssa -> SMT (z3/cvc5), native replay')})
    else:
        m['not_applicable'].append({"property_id":i,"reason":NA.get(i,"check not built yet in this session (see DESIGN.md §6 for the planned solver-based check)")})
json.dump(m,open('/verif/MANIFEST.json','w'),indent=1)
print('checks',len(m['checks']),'n/a',len(m['not_applicable']))
