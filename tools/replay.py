#!/usr/bin/env python3
"""usage: tools/replay.py <ID> <replay.json>
Re-runs a stored counterexample natively against /repo's current tree: builds the harness package's test binary
with the overlay (tag verif), runs TestVerifReplay with VERIF_REPLAY=<file>, prints the REPLAY-RESULT line.
Exit 1 (and a VIOLATION line) if the failure reproduces, 0 if the run passes, 2 on build problems."""
import json, os, subprocess, sys, tempfile, shutil

def main():
    pid, path = sys.argv[1], os.path.abspath(sys.argv[2])
    verif = os.path.dirname(os.path.dirname(os.path.abspath(__file__)))
    repo = os.environ.get('VERIF_REPO', '/repo')
    rf = json.load(open(path))
    harness = rf['harness']
    checks = json.load(open(os.path.join(verif, 'checks.json')))
    pkg = None
    for cid, c in checks.items():
        for tier in ('quick', 'thorough'):
            for h in c[tier]['harnesses']:
                if h['func'] == harness:
                    pkg = h['pkg']
    if pkg is None:
        print('unknown harness', harness); sys.exit(2)
    ov = {}
    for root, _, files in os.walk(os.path.join(verif, 'harness')):
        for f in files:
            src = os.path.join(root, f)
            ov[os.path.join(repo, os.path.relpath(src, os.path.join(verif, 'harness')))] = src
    tmp = tempfile.mkdtemp(prefix='verif-replay-')
    try:
        ovf = os.path.join(tmp, 'overlay.json')
        json.dump({'Replace': ov}, open(ovf, 'w'))
        binp = os.path.join(tmp, 'replay.test')
        env = dict(os.environ, GOFLAGS='-mod=mod', GOPROXY='off', GOSUMDB='off', GOTOOLCHAIN='local')
        if pkg == 'cmd/hidi':
            env['CGO_ENABLED'] = '0'
        b = subprocess.run(['go', 'test', '-c', '-vet=off', '-tags=verif', '-overlay', ovf, '-o', binp, './' + pkg], cwd=repo, env=env, capture_output=True, text=True)
        if b.returncode != 0:
            print('INCONCLUSIVE: native build failed:', b.stderr[-400:]); sys.exit(2)
        run = os.path.join(tmp, 'run'); os.mkdir(run)
        args = [binp] if pkg == 'cmd/hidi' else [binp, '-test.run', '^TestVerifReplay$', '-test.timeout', '120s', '-test.v']
        r = subprocess.run(args, cwd=run, env=dict(env, VERIF_REPLAY=path), capture_output=True, text=True)
        out = r.stdout + r.stderr
        line = [l.strip() for l in out.splitlines() if l.strip().startswith('REPLAY-RESULT')]
        last = line[-1] if line else ''
        if not last:
            for l in out.splitlines():
                if 'panic: ' in l or l.startswith('fatal error: '):
                    last = 'REPLAY-RESULT kind=panic msg=' + l.strip(); break
        print(last or 'no REPLAY-RESULT line:\n' + out[-600:])
        if 'kind=assert' in last or 'kind=panic' in last:
            print('VIOLATION property=%s replay=%s' % (pid, path)); sys.exit(1)
        sys.exit(0)
    finally:
        shutil.rmtree(tmp, ignore_errors=True)

main()
