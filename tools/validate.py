#!/usr/bin/env python3-vt
import json,sys,glob,jsonschema
m=json.load(open('/verif/MANIFEST.json'))
jsonschema.validate(m, json.load(open('/root/.vp/MANIFEST.schema.json')))
es=json.load(open('/root/.vp/EVIDENCE.schema.json'))
bad=0
for f in sorted(glob.glob('/verif/evidence/*.json')):
    try:
        jsonschema.validate(json.load(open(f)), es)
    except Exception as e:
        bad+=1; print('INVALID',f,str(e)[:300])
props=[json.loads(l)['id'] for l in open('/verif/properties.jsonl')]
claimed={c['property_id'] for c in m['checks']}
na={n['property_id'] for n in m.get('not_applicable',[])}
print('manifest ok; claimed',len(claimed),'n/a',len(na),'unlisted',[p for p in props if p not in claimed and p not in na],'bad evidence',bad)
