#!/bin/bash
# usage: tools/seedbatch.sh <suffix> <ID>...   — for each ID: confirm the sub-agent's output in /tmp/seed/<ID><suffix>.out
# as /verif/seeded/<ID>-<suffix>, remove its worktree, then run the property's quick check against it.
suf="$1"; shift
for id in "$@"; do
  out=/tmp/seed/${id}${suf}.out
  [ -f "$out/patch.diff" ] || { echo "$id: no patch yet"; continue; }
  /verif/tools/confirm_seed.sh "$out" "${id}-${suf}" "$id" 2>&1 | tail -2 | head -1 | cut -c1-160
  git -C /repo worktree remove --force /tmp/seed/${id}${suf} 2>/dev/null
  if [ -f /verif/seeded/${id}-${suf}/patch.diff ]; then
    /verif/tools/seedtest.sh /verif/seeded/${id}-${suf}/patch.diff "$id" 2>&1 | grep "^---\|VIOLATION\|SUMMARY\|INCONCL" | head -3 | cut -c1-230
  fi
done
git -C "${VERIF_REPO:-/repo}" status --short
