import json,sys
try:
  r=json.load(open(sys.argv[1]))
except Exception:
  print(open(sys.argv[1]).read()[:3000]); raise SystemExit
print('error',r.get('error'),'vars',r['symbolic_inputs'],'forks',r['forks'],'instrs',r['ssa_instructions_executed'],'exec',round(r['exec_s'],2),'solve',round(r['solve_s'],2))
for o in (r['obligations'] or [])+(r['covers'] or []):
    print(o['kind'],o['status'],round(o['time_s'],2),o.get('nodes'),o['msg'][:90],o.get('replay',''),o.get('detail','')[:100])
