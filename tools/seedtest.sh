#!/bin/sh
# usage: tools/seedtest.sh <patch.diff> <ID>...   — applies the patch to /repo, runs the checks, reverts.
patch="$1"; shift
R="${VERIF_REPO:-/repo}"
git -C "$R" apply "$patch" || { echo "patch does not apply"; exit 2; }
for id in "$@"; do
  echo "--- $id on $(basename $(dirname $patch))"
  /verif/check $id 2>&1 | grep -v conda | grep -v "^  harness" | cut -c1-260
done
git -C "$R" checkout -- .
git -C "$R" status --short | head -3
