#!/bin/sh
# Runs the repository's own suite (guard off) and compares with the pinned baseline: every stable test must pass.
export GOFLAGS=-mod=mod GOPROXY=off GOSUMDB=off GOTOOLCHAIN=local
cd "${VERIF_REPO:-/repo}" || exit 3
go test -mod=mod -json -vet=off -count=1 -timeout 25m ./... 2>/dev/null > /tmp/.verif_baseline.json
python3 - <<'PY'
import json,sys
base=json.load(open('/root/.vp/BASELINE.json'))
passed=set()
for l in open('/tmp/.verif_baseline.json'):
    try: e=json.loads(l)
    except Exception: continue
    if e.get('Action')=='pass' and e.get('Test'):
        passed.add(e['Package']+'::'+e['Test'])
missing=[t for t in base['stable_pass'] if t not in passed]
print('baseline stable tests: %d, passing now: %d, missing: %d'%(len(base['stable_pass']),len(base['stable_pass'])-len(missing),len(missing)))
for m in missing[:10]: print('  MISSING',m)
sys.exit(1 if missing else 0)
PY
rc=$?
rm -f /tmp/.verif_baseline.json
exit $rc
