#!/bin/sh
# usage: tools/prefixtest.sh <fix-commit> <ID>...  — temporarily reverts a fix: commit in the working tree and runs the checks.
c="$1"; shift
git -C /repo diff "$c~1" "$c" | git -C /repo apply -R || { echo "cannot revert $c"; exit 2; }
for id in "$@"; do
  echo "--- $id with $c reverted"
  /verif/check $id 2>&1 | grep -v conda | grep -v "^  harness" | cut -c1-260
done
git -C /repo checkout -- .
