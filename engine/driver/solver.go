// Package driver runs harnesses through the symbolic executor, discharges the resulting
// obligations with SMT solvers, replays counterexamples natively and writes evidence.
package driver

import (
	"bytes"
	"context"
	"fmt"
	"os"
	"os/exec"
	"path/filepath"
	"regexp"
	"strconv"
	"strings"
	"time"

	"verif/engine/smt"
)

type SolveResult struct {
	Status string // sat | unsat | unknown | error
	Solver string
	TimeS  float64
	Model  map[string]uint64
	Raw    string
}

var valRe = regexp.MustCompile(`\(\s*(\|[^|]*\||[^\s()]+)\s+(#x[0-9a-fA-F]+|#b[01]+|true|false)\s*\)`)

func solverCmd(name string, timeoutS int, file string) *exec.Cmd {
	switch name {
	case "z3":
		return exec.Command("z3", fmt.Sprintf("-T:%d", timeoutS), file)
	case "z3-new":
		return exec.Command("z3-new", fmt.Sprintf("-T:%d", timeoutS), "-memory:6000", file)
	case "cvc5":
		// address-space cap so a runaway query ends as "unknown" instead of exhausting the machine
		return exec.Command("sh", "-c", fmt.Sprintf("ulimit -v 8000000; exec cvc5 --tlimit=%d --produce-models %q", timeoutS*1000, file))
	}
	panic("unknown solver " + name)
}

// Solve runs the given solvers as a portfolio on the conjunction of roots; the first decisive answer wins.
func Solve(roots []*smt.Term, solvers []string, timeoutS int, scratch string, tag string) SolveResult {
	// trivial cases
	allTrue := true
	for _, r := range roots {
		if r.IsFalse() {
			return SolveResult{Status: "unsat", Solver: "simplifier"}
		}
		if !r.IsTrue() {
			allTrue = false
		}
	}
	if allTrue {
		return SolveResult{Status: "sat", Solver: "simplifier", Model: map[string]uint64{}}
	}
	script, vars := smt.Script(roots)
	var sb strings.Builder
	sb.WriteString("(set-option :produce-models true)\n(set-logic ALL)\n")
	sb.WriteString(script)
	sb.WriteString("(check-sat)\n")
	if len(vars) > 0 {
		sb.WriteString("(get-value (")
		for _, v := range vars {
			sb.WriteString(smtSym(v.Name))
			sb.WriteString(" ")
		}
		sb.WriteString("))\n")
	}
	file := filepath.Join(scratch, tag+".smt2")
	if err := os.WriteFile(file, []byte(sb.String()), 0o644); err != nil {
		return SolveResult{Status: "error", Raw: err.Error()}
	}
	if os.Getenv("GOSMT_KEEP") == "" {
		defer os.Remove(file) // query files can be hundreds of MB: never leave them behind
	}
	ctx, cancel := context.WithCancel(context.Background())
	defer cancel()
	ch := make(chan SolveResult, len(solvers))
	for _, s := range solvers {
		go func(s string) {
			t0 := time.Now()
			cmd := solverCmd(s, timeoutS, file)
			var out bytes.Buffer
			cmd.Stdout = &out
			cmd.Stderr = &out
			if err := cmd.Start(); err != nil {
				ch <- SolveResult{Status: "error", Solver: s, Raw: err.Error()}
				return
			}
			done := make(chan struct{})
			go func() {
				select {
				case <-ctx.Done():
					cmd.Process.Kill()
				case <-done:
				}
			}()
			cmd.Wait()
			close(done)
			r := parseSolverOutput(out.String())
			r.Solver = s
			r.TimeS = time.Since(t0).Seconds()
			ch <- r
		}(s)
	}
	var last SolveResult
	for range solvers {
		r := <-ch
		if r.Status == "sat" || r.Status == "unsat" {
			return r
		}
		last = r
	}
	return last
}

func smtSym(s string) string {
	for _, c := range s {
		if !(c >= 'a' && c <= 'z' || c >= 'A' && c <= 'Z' || c >= '0' && c <= '9' || c == '_' || c == '.' || c == '!' || c == '$') {
			return "|" + s + "|"
		}
	}
	return s
}

func parseSolverOutput(out string) SolveResult {
	r := SolveResult{Raw: out}
	first := strings.TrimSpace(out)
	if i := strings.IndexByte(first, '\n'); i >= 0 {
		first = strings.TrimSpace(first[:i])
	}
	// any error other than the expected "no model after unsat" makes the answer inconclusive
	for _, l := range strings.Split(out, "\n") {
		if strings.Contains(l, "(error") && !(first == "unsat" && (strings.Contains(l, "model is not available") || strings.Contains(l, "Cannot get value") || strings.Contains(l, "cannot get value") || strings.Contains(l, "unless after a SAT"))) {
			r.Status = "error"
			return r
		}
	}
	switch first {
	case "unsat":
		r.Status = "unsat"
		r.Raw = ""
	case "sat":
		r.Status = "sat"
		r.Model = map[string]uint64{}
		for _, m := range valRe.FindAllStringSubmatch(out, -1) {
			name := strings.Trim(m[1], "|")
			v := m[2]
			var x uint64
			switch {
			case v == "true":
				x = 1
			case v == "false":
				x = 0
			case strings.HasPrefix(v, "#x"):
				x, _ = strconv.ParseUint(v[2:], 16, 64)
			case strings.HasPrefix(v, "#b"):
				x, _ = strconv.ParseUint(v[2:], 2, 64)
			}
			r.Model[name] = x
		}
		r.Raw = ""
	default:
		r.Status = "unknown"
		if len(r.Raw) > 300 {
			r.Raw = r.Raw[:300]
		}
	}
	return r
}
