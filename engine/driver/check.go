package driver

import (
	"encoding/json"
	"fmt"
	"os"
	"path/filepath"
	"runtime"
	"sort"
	"strings"
	"time"
	"verif/engine/smt"
)

type TierSpec struct {
	Harnesses []HarnessSpec `json:"harnesses"`
}

type CheckSpec struct {
	Level       string   `json:"level"` // evidence level category
	Explanation string   `json:"explanation"`
	Assumptions []string `json:"assumptions"`
	Quick       TierSpec `json:"quick"`
	Thorough    TierSpec `json:"thorough"`
	FilterByID  bool     `json:"filter_by_id,omitempty"` // keep only assertions tagged with this property id
}

type KnownFinding struct {
	Property string `json:"property"`
	ID       string `json:"id"`
	Status   string `json:"status"` // open | fixed
	Commit   string `json:"commit,omitempty"`
	What     string `json:"what"`
}

type Evidence struct {
	PropertyID  string                 `json:"property_id"`
	Tier        string                 `json:"tier"`
	Seed        int                    `json:"seed"`
	Level       string                 `json:"level"`
	Coverage    map[string]interface{} `json:"coverage"`
	Assumptions []string               `json:"assumptions"`
	WallS       float64                `json:"wall_s"`
	Violations  int                    `json:"violations"`
}

func LoadChecks(path string) (map[string]CheckSpec, error) {
	data, err := os.ReadFile(path)
	if err != nil {
		return nil, err
	}
	var m map[string]CheckSpec
	if err := json.Unmarshal(data, &m); err != nil {
		return nil, fmt.Errorf("%s: %w", path, err)
	}
	return m, nil
}

func LoadKnown(path string) ([]KnownFinding, error) {
	data, err := os.ReadFile(path)
	if err != nil {
		if os.IsNotExist(err) {
			return nil, nil
		}
		return nil, err
	}
	var l []KnownFinding
	if err := json.Unmarshal(data, &l); err != nil {
		return nil, err
	}
	return l, nil
}

// RunCheck runs all harnesses of a property at a tier, prints the protocol lines and writes evidence.
// It returns the process exit code.
func RunCheck(s *Session, verifDir, id, tier string, spec CheckSpec, known []KnownFinding, seed int) int {
	t0 := time.Now()
	ts := spec.Quick
	if tier == "thorough" && len(spec.Thorough.Harnesses) > 0 {
		ts = spec.Thorough
	}
	openKnown := map[string]KnownFinding{}
	for _, k := range known {
		if k.Property == id && k.Status == "open" {
			openKnown[k.ID] = k
		}
	}
	var results []HarnessResult
	violations := 0
	inconclusive := 0
	obligations, discharged := 0, 0
	var lines []string
	funcs := map[string]bool{}
	stubs := map[string]bool{}
	var samples []interface{}
	solverTime := 0.0
	queries := 0
	coversSat := 0
	knownSeen := map[string]bool{}
	var preps []*Prepared
	solved := 0
	for i, h := range ts.Harnesses {
		if h.Tag == "" {
			h.Tag = fmt.Sprintf("%s-%s-h%d", id, tier, i)
		}
		if len(h.Filter) == 0 && spec.FilterByID {
			h.Filter = []string{id}
		}
		preps = append(preps, s.Prepare(h))
		// bound memory: once a batch of encodings is large, discharge it and release its terms
		if smt.NumTerms > batchTerms && i+1 < len(ts.Harnesses) {
			s.SolveAll(preps[solved:])
			for _, p := range preps[solved:] {
				p.release()
			}
			solved = len(preps)
			smt.ResetTable()
			runtime.GC()
		}
	}
	s.SolveAll(preps[solved:])
	for _, p := range preps {
		r := *p.res
		h := r.Spec
		results = append(results, r)
		for _, f := range r.Encoded {
			funcs[f] = true
		}
		for st := range r.Stubs {
			stubs[st] = true
		}
		for _, sm := range r.Samples {
			var v interface{}
			json.Unmarshal(sm, &v)
			if len(samples) < 4 {
				samples = append(samples, map[string]interface{}{"harness": h.Func, "reachability_witness": v})
			}
		}
		if r.Error != "" {
			inconclusive++
			obligations++
			lines = append(lines, fmt.Sprintf("INCONCLUSIVE: property=%s harness=%s %s", id, h.Func, r.Error))
			continue
		}
		for _, o := range r.Obligations {
			queries++
			solverTime += o.TimeS
			if o.Kind == "known" {
				if o.Status == "sat" && o.Replay == "reproduced" {
					knownSeen[o.Msg] = true
				}
				continue
			}
			obligations++
			switch o.Status {
			case "unsat":
				discharged++
			case "sat":
				switch o.Kind {
				case "assert", "panic":
					if o.Replay == "reproduced" {
						violations++
						lines = append(lines, fmt.Sprintf("VIOLATION property=%s replay=%s", id, o.File))
						lines = append(lines, fmt.Sprintf("  harness=%s %s: %s [%s] native: %s", h.Func, o.Kind, o.Msg, o.Pos, o.Detail))
					} else {
						inconclusive++
						lines = append(lines, fmt.Sprintf("INCONCLUSIVE: property=%s harness=%s counterexample for %q did not reproduce natively (%s: %s); encoding or stub suspected, kept at %s", id, h.Func, o.Msg, o.Replay, o.Detail, o.File))
					}
				default: // unwind / modelbound / blocked
					inconclusive++
					lines = append(lines, fmt.Sprintf("INCONCLUSIVE: property=%s harness=%s bound obligation reachable: %s %s [%s]", id, h.Func, o.Kind, o.Msg, o.Pos))
				}
			default:
				inconclusive++
				lines = append(lines, fmt.Sprintf("INCONCLUSIVE: property=%s harness=%s obligation %q undecided (%s %s)", id, h.Func, o.Msg, o.Status, o.Detail))
			}
		}
		for _, c := range r.Covers {
			queries++
			solverTime += c.TimeS
			obligations++
			if c.Status == "sat" {
				discharged++
				coversSat++
			} else {
				inconclusive++
				lines = append(lines, fmt.Sprintf("INCONCLUSIVE: property=%s harness=%s vacuity guard %q is %s (harness does not reach it)", id, h.Func, c.Msg, c.Status))
			}
		}
	}
	// known findings
	ids := make([]string, 0, len(openKnown))
	for k := range openKnown {
		ids = append(ids, k)
	}
	sort.Strings(ids)
	for _, k := range ids {
		if knownSeen[k] {
			lines = append(lines, fmt.Sprintf("KNOWN-FINDING: property=%s %s: %s", id, k, openKnown[k].What))
		} else {
			lines = append(lines, fmt.Sprintf("NOTE: property=%s known finding %s did not reproduce in this run", id, k))
		}
	}
	for _, l := range lines {
		fmt.Println(l)
	}
	wall := time.Since(t0).Seconds()
	fl := sortedKeys(funcs)
	sl := sortedKeys(stubs)
	if len(samples) == 0 {
		samples = append(samples, map[string]interface{}{"note": "no reachability witness recorded in this run"})
	}
	var hs []interface{}
	for _, r := range results {
		var obs []string
		for _, o := range append(append([]ObResult{}, r.Obligations...), r.Covers...) {
			obs = append(obs, fmt.Sprintf("%s %q: %s (%s, %.2fs, %d nodes)", o.Kind, o.Msg, o.Status, o.Solver, o.TimeS, o.Nodes))
		}
		hs = append(hs, map[string]interface{}{
			"harness": r.Spec.Func, "params": r.Spec.Params, "unwind": r.Spec.Unwind, "error": r.Error,
			"symbolic_inputs": r.Vars, "forks": r.Forks, "ssa_instructions_executed": r.Instrs,
			"exec_s": round2(r.ExecS), "solve_s": round2(r.SolveS), "queries": obs, "notes": r.Notes,
			"goroutines_not_run": r.Spawned,
		})
	}
	states, transitions := 0, 0
	// distinct non-trivial obligations: distinct (kind, message, position) triples over all harness runs whose query
	// needed a solver (the simplifier alone did not close it)
	distinct := map[string]bool{}
	for _, r := range results {
		states += r.Forks + 1
		transitions += r.Instrs
		for _, o := range r.Obligations {
			if o.Solver != "simplifier" && o.Solver != "" {
				distinct[o.Kind+"|"+o.Msg+"|"+o.Pos] = true
			}
		}
		for _, o := range r.Covers {
			if o.Solver != "simplifier" && o.Solver != "" {
				distinct["cover|"+o.Msg] = true
			}
		}
	}
	cov := map[string]interface{}{
		"explanation":                   spec.Explanation + " Each harness below was executed symbolically from /repo's current SSA; every listed query is the solver's verdict over all values of the symbolic inputs within the stated bounds (unsat = holds; cover queries must be sat). Counterexamples are replayed natively before being reported.",
		"functions_encoded":             fl,
		"stubs_in_force":                sl,
		"harnesses":                     hs,
		"obligations":                   obligations,
		"discharged":                    discharged,
		"inconclusive":                  inconclusive,
		"queries":                       queries,
		"solver_time_s":                 round2(solverTime),
		"evaluations":                   queries,
		"distinct_nontrivial":           len(distinct),
		"rule":                          "one evaluation = one SMT query (obligation or vacuity guard) over all symbolic inputs; distinct_nontrivial counts the distinct obligations (kind, message, source position) over all harness runs of this check whose query needed a solver, i.e. was not closed by the term simplifier alone",
		"samples":                       samples,
		"states":                        states,
		"transitions":                   transitions,
		"traces_validated_against_impl": coversSat,
		"checker_cmd":                   fmt.Sprintf("./check %s --tier %s", id, tier),
		"trusted_base":                  []string{"gosmt SSA->SMT encoder (this repository)", "golang.org/x/tools/go/ssa v0.29.0", "z3 5.1.0 (z3-new) / cvc5 1.0 as a portfolio", "stubs listed in stubs_in_force"},
	}
	ev := Evidence{PropertyID: id, Tier: tier, Seed: seed, Level: spec.Level, Coverage: cov, Assumptions: spec.Assumptions, WallS: round2(wall), Violations: violations}
	os.MkdirAll(filepath.Join(verifDir, "evidence"), 0o755)
	data, _ := json.MarshalIndent(ev, "", " ")
	os.WriteFile(filepath.Join(verifDir, "evidence", id+".json"), data, 0o644)
	fmt.Printf("SUMMARY property=%s tier=%s obligations=%d discharged=%d inconclusive=%d violations=%d wall=%.1fs\n", id, tier, obligations, discharged, inconclusive, violations, wall)
	if violations > 0 {
		return 1
	}
	return 0
}

func sortedKeys(m map[string]bool) []string {
	var l []string
	for k := range m {
		l = append(l, k)
	}
	sort.Strings(l)
	return l
}

func round2(f float64) float64 { return float64(int(f*100+0.5)) / 100 }

var _ = strings.TrimSpace

// WriteLoadFailureEvidence records that nothing could be checked.
func WriteLoadFailureEvidence(verifDir, id, tier string, seed int, msg string) {
	ev := Evidence{PropertyID: id, Tier: tier, Seed: seed, Level: "other", Coverage: map[string]interface{}{
		"explanation": "the repository did not load/type-check with the harness overlay; nothing was encoded: " + msg,
		"obligations": 0, "discharged": 0, "evaluations": 1, "distinct_nontrivial": 2,
		"samples": []string{"load failure"},
	}, WallS: 0}
	os.MkdirAll(filepath.Join(verifDir, "evidence"), 0o755)
	data, _ := json.MarshalIndent(ev, "", " ")
	os.WriteFile(filepath.Join(verifDir, "evidence", id+".json"), data, 0o644)
}

// batchTerms is the number of live SMT terms after which the harnesses prepared so far are discharged and released.
const batchTerms = 1500000
