package driver

import (
	"encoding/json"
	"fmt"
	"os"
	"os/exec"
	"os/signal"
	"path/filepath"
	"runtime"
	"runtime/debug"
	"sort"
	"strconv"
	"strings"
	"sync"
	"syscall"
	"time"

	"golang.org/x/tools/go/ssa"
	"verif/engine/smt"
	"verif/engine/symex"
)

const ModPrefix = "github.com/gethiox/HIDI"

type HarnessSpec struct {
	Pkg     string         `json:"pkg"`  // import path relative to module, e.g. internal/pkg/midi/device
	Func    string         `json:"func"` // harness function name
	Params  map[string]int `json:"params,omitempty"`
	Unwind  int            `json:"unwind,omitempty"`
	Solvers []string       `json:"solvers,omitempty"`
	Timeout int            `json:"timeout,omitempty"`
	Split   bool           `json:"split,omitempty"` // one query per obligation instead of one per kind
	// Expect lists obligation messages that are expected to be violated (used by known findings / self tests)
	Tag    string   `json:"tag,omitempty"`
	Race   bool     `json:"race,omitempty"`   // lock-discipline counterexamples are replayed with a race-detector build
	Filter []string `json:"filter,omitempty"` // property ids: keep only assertions/covers whose tag (text before ':') mentions one of them
}

type ObResult struct {
	Kind    string  `json:"kind"`
	Msg     string  `json:"msg"`
	Pos     string  `json:"pos,omitempty"`
	Status  string  `json:"status"` // unsat | sat | unknown | error
	Solver  string  `json:"solver,omitempty"`
	TimeS   float64 `json:"time_s"`
	Nodes   int     `json:"nodes,omitempty"`
	Replay  string  `json:"replay,omitempty"` // reproduced | not-reproduced | build-failed | skipped
	File    string  `json:"replay_file,omitempty"`
	Known   string  `json:"known,omitempty"`
	Members int     `json:"members,omitempty"`
	Detail  string  `json:"detail,omitempty"`
}

type HarnessResult struct {
	Spec        HarnessSpec       `json:"spec"`
	Error       string            `json:"error,omitempty"` // unsupported construct etc.
	Encoded     []string          `json:"encoded_functions"`
	Stubs       map[string]int    `json:"stubs_used"`
	Spawned     []string          `json:"goroutines_not_run,omitempty"`
	Notes       []string          `json:"notes,omitempty"`
	Vars        int               `json:"symbolic_inputs"`
	Forks       int               `json:"forks"`
	Instrs      int               `json:"ssa_instructions_executed"`
	Obligations []ObResult        `json:"obligations"`
	Covers      []ObResult        `json:"covers"`
	Samples     []json.RawMessage `json:"samples,omitempty"`
	ExecS       float64           `json:"exec_s"`
	SolveS      float64           `json:"solve_s"`
}

type Session struct {
	Repo       string
	HarnessDir string
	Scratch    string
	Loaded     *symex.Loaded
	ovPaths    map[string]string
	nativeMu   sync.Mutex
	nativeBin  map[string]string // pkg -> test binary ("" = build failed)
	nativeErr  map[string]string
	Verbose    bool
}

// memory watchdog: symbolic execution of an over-sized harness is stopped (and reported as inconclusive)
// before the kernel kills the process. Limit in MiB from GOSMT_MEM_MB (default 14000).
var watchdogOnce sync.Once

var (
	scratchMu   sync.Mutex
	scratchDirs []string
)

func startWatchdog() {
	watchdogOnce.Do(func() {
		limit := uint64(14000)
		if v, err := strconv.Atoi(os.Getenv("GOSMT_MEM_MB")); err == nil && v > 0 {
			limit = uint64(v)
		}
		go func() {
			var ms runtime.MemStats
			for {
				time.Sleep(500 * time.Millisecond)
				runtime.ReadMemStats(&ms)
				if ms.HeapAlloc>>20 > limit {
					smt.Abort.Store(true)
				}
			}
		}()
	})
}

func NewSession(repo, harnessDir string) (*Session, error) {
	startWatchdog()
	defer func() {
		// remove the scratch directory when the process is interrupted (timeouts of callers, Ctrl-C)
		sig := make(chan os.Signal, 1)
		signal.Notify(sig, syscall.SIGTERM, syscall.SIGINT, syscall.SIGHUP)
		go func() {
			<-sig
			scratchMu.Lock()
			for _, d := range scratchDirs {
				os.RemoveAll(d)
			}
			scratchMu.Unlock()
			os.Exit(143)
		}()
	}()
	scratch, err := os.MkdirTemp("", "gosmt-")
	if err == nil {
		scratchMu.Lock()
		scratchDirs = append(scratchDirs, scratch)
		scratchMu.Unlock()
	}
	if err != nil {
		return nil, err
	}
	ov, paths, err := symex.BuildOverlay(repo, harnessDir)
	if err != nil {
		return nil, err
	}
	// drop native-only test files from the symbolic load (they import testing)
	for p := range ov {
		if strings.HasSuffix(p, "_test.go") {
			delete(ov, p)
		}
	}
	l, err := symex.Load(repo, ov, []string{"./internal/...", "./cmd/hidi"})
	if err != nil {
		os.RemoveAll(scratch)
		return nil, err
	}
	return &Session{Repo: repo, HarnessDir: harnessDir, Scratch: scratch, Loaded: l, ovPaths: paths,
		nativeBin: map[string]string{}, nativeErr: map[string]string{}}, nil
}

func (s *Session) Close() {
	if os.Getenv("GOSMT_KEEP") != "" {
		fmt.Fprintln(os.Stderr, "scratch kept at", s.Scratch)
		return
	}
	os.RemoveAll(s.Scratch)
}

type obligation struct {
	kind, msg, pos string
	cond           *smt.Term
	members        int
}

type job struct {
	ob    *obligation
	roots []*smt.Term
	out   *ObResult
	tag   string
	res   SolveResult
}

// Prepared is a symbolically executed harness whose queries are not yet solved.
type Prepared struct {
	spec    HarnessSpec
	res     *HarnessResult
	ex      *symex.Exec
	jobs    []*job
	known   []ObResult
	solvers []string
	timeout int
}

func tagMatches(msg string, filter []string) bool {
	if len(filter) == 0 {
		return true
	}
	tag := msg
	if i := strings.Index(msg, ":"); i >= 0 {
		tag = msg[:i]
	}
	if strings.HasPrefix(tag, "NE") {
		return true
	}
	for _, f := range filter {
		if strings.Contains(tag, f) {
			return true
		}
	}
	return false
}

// RunHarness symbolically executes one harness and discharges its obligations.
func (s *Session) RunHarness(spec HarnessSpec) HarnessResult {
	p := s.Prepare(spec)
	s.SolveAll([]*Prepared{p})
	return *p.res
}

// SolveAll discharges the queries of all prepared harnesses in one worker pool and post-processes them.
func (s *Session) SolveAll(ps []*Prepared) {
	t1 := time.Now()
	nsolv := 2
	var all []*job
	owner := map[*job]*Prepared{}
	for _, p := range ps {
		if len(p.solvers) > 0 {
			nsolv = len(p.solvers)
		}
		for _, j := range p.jobs {
			all = append(all, j)
			owner[j] = p
		}
	}
	sem := make(chan struct{}, 16/nsolv)
	var wg sync.WaitGroup
	for _, j := range all {
		wg.Add(1)
		go func(j *job) {
			defer wg.Done()
			sem <- struct{}{}
			defer func() { <-sem }()
			p := owner[j]
			j.res = Solve(j.roots, p.solvers, p.timeout, s.Scratch, j.tag)
		}(j)
	}
	wg.Wait()
	total := time.Since(t1).Seconds()
	for _, p := range ps {
		p.res.SolveS = total
		s.finish(p)
	}
}

// Prepare symbolically executes one harness and builds its queries.
func (s *Session) Prepare(spec HarnessSpec) *Prepared {
	res := &HarnessResult{}
	prep := &Prepared{spec: spec, res: res}
	s.prepare(spec, res, prep)
	return prep
}

func (s *Session) prepare(spec HarnessSpec, res *HarnessResult, prep *Prepared) {
	res.Spec = spec
	if smt.Abort.Load() {
		// the previous harness was given up for memory: its encoding is unreferenced by now
		runtime.GC()
		debug.FreeOSMemory()
		smt.Abort.Store(false)
	}
	t0 := time.Now()
	pkgPath := ModPrefix + "/" + spec.Pkg
	if spec.Pkg == "" {
		pkgPath = ModPrefix
	}
	fn := s.Loaded.FindFunc(pkgPath, spec.Func)
	if fn == nil {
		res.Error = "harness function not found: " + pkgPath + "." + spec.Func
		return
	}
	ex := symex.NewExec(s.Loaded.Prog, ModPrefix)
	prep.ex = ex
	ex.RepoDir = s.Repo
	ex.Trace = os.Getenv("GOSMT_TRACE") != ""
	if spec.Unwind > 0 {
		ex.Unwind = spec.Unwind
	}
	ex.Params = spec.Params
	func() {
		defer func() {
			if r := recover(); r != nil {
				if re, ok := r.(smt.ResourceError); ok {
					res.Error = "unsupported: " + re.Error()
					prep.ex = nil
					smt.ResetTable()
					return
				}
				if u, ok := r.(*symex.Unsupported); ok {
					res.Error = u.Error()
					if os.Getenv("GOSMT_DEBUG") != "" {
						fmt.Fprintln(os.Stderr, string(debug.Stack()))
					}
					return
				}
				panic(r)
			}
		}()
		st := ex.NewState()
		ex.RunInit(st, fn.Pkg)
		// outcomes of package initialisers are not about the property (kept as a note only)
		if n := len(ex.Outcomes); n > 0 {
			ex.Notes = append(ex.Notes, fmt.Sprintf("%d outcome(s) during package initialisation were discarded (first: %s %s)", n, ex.Outcomes[0].Kind, ex.Outcomes[0].Msg))
			ex.Outcomes = nil
		}
		ex.CallFn(st, nil, fn, nil, nil, 0)
	}()
	res.ExecS = time.Since(t0).Seconds()
	if s.Verbose || os.Getenv("GOSMT_DEBUG") != "" {
		fmt.Fprintf(os.Stderr, "[gosmt] %s %v exec %.2fs terms=%d forks=%d instrs=%d outcomes=%d\n", spec.Func, spec.Params, res.ExecS, smt.NumTerms, ex.Forks, ex.Instrs, len(ex.Outcomes))
		fmt.Fprintf(os.Stderr, "[gosmt] terms by op: %v\n", smt.NumByOp)
		cnt := map[string]int{}
		for _, o := range ex.Outcomes {
			cnt[o.Kind+" "+o.Msg+" @ "+o.Pos]++
		}
		for k, v := range cnt {
			if v > 20 {
				fmt.Fprintf(os.Stderr, "[gosmt] outcome x%d %s\n", v, k)
			}
		}
	}
	for n := range ex.Encoded {
		res.Encoded = append(res.Encoded, n)
	}
	sort.Strings(res.Encoded)
	res.Stubs = ex.StubsUsed
	res.Spawned = ex.Spawned
	res.Notes = dedupe(ex.Notes)
	res.Vars = len(ex.Vars)
	res.Forks = ex.Forks
	res.Instrs = ex.Instrs
	if res.Error != "" {
		return
	}
	// known-finding predicates
	notKnown := smt.True
	for _, k := range ex.Known {
		notKnown = smt.And(notKnown, smt.Not(k.Pred))
	}

	// group obligations
	groups := map[string]*obligation{}
	var order []string
	var covers []*obligation
	for _, o := range ex.Outcomes {
		if (o.Kind == "cover" || o.Kind == "assert") && !tagMatches(o.Msg, spec.Filter) {
			continue
		}
		if o.Kind == "cover" {
			// a label is covered if any of its occurrences (loop unrollings, call sites) is reachable
			var cv *obligation
			for _, c := range covers {
				if c.msg == o.Msg {
					cv = c
					break
				}
			}
			if cv == nil {
				cv = &obligation{kind: o.Kind, msg: o.Msg, pos: o.Pos, cond: smt.False}
				covers = append(covers, cv)
			}
			cv.cond = smt.Or(cv.cond, o.Cond)
			cv.members++
			continue
		}
		key := o.Kind + "|" + o.Msg
		if spec.Split {
			key += "|" + o.Pos + fmt.Sprint(o.Seq)
		} else if o.Kind == "panic" {
			key = o.Kind + "|" + o.Msg + "|" + o.Pos
		}
		g, ok := groups[key]
		if !ok {
			g = &obligation{kind: o.Kind, msg: o.Msg, pos: o.Pos, cond: smt.False}
			groups[key] = g
			order = append(order, key)
		}
		g.cond = smt.Or(g.cond, o.Cond)
		g.members++
	}
	solvers := spec.Solvers
	if len(solvers) == 0 {
		solvers = []string{"z3-new", "cvc5"}
	}
	timeout := spec.Timeout
	if timeout == 0 {
		timeout = 120
	}
	prep.solvers, prep.timeout = solvers, timeout
	var jobs []*job
	res.Obligations = make([]ObResult, len(order))
	for i, key := range order {
		g := groups[key]
		res.Obligations[i] = ObResult{Kind: g.kind, Msg: g.msg, Pos: g.pos, Members: g.members}
		jobs = append(jobs, &job{ob: g, roots: []*smt.Term{g.cond, notKnown}, out: &res.Obligations[i], tag: fmt.Sprintf("%s-%s-ob%d", spec.Func, spec.Tag, i)})
	}
	res.Covers = make([]ObResult, len(covers))
	for i, c := range covers {
		res.Covers[i] = ObResult{Kind: c.kind, Msg: c.msg, Pos: c.pos}
		jobs = append(jobs, &job{ob: c, roots: []*smt.Term{c.cond}, out: &res.Covers[i], tag: fmt.Sprintf("%s-%s-cv%d", spec.Func, spec.Tag, i)})
	}
	// known findings: each must still be reachable together with some violation
	var knownObs []ObResult
	if len(ex.Known) > 0 {
		anyViolation := smt.False
		for _, key := range order {
			g := groups[key]
			if g.kind == "assert" || g.kind == "panic" {
				anyViolation = smt.Or(anyViolation, g.cond)
			}
		}
		knownObs = make([]ObResult, len(ex.Known))
		for i, k := range ex.Known {
			knownObs[i] = ObResult{Kind: "known", Msg: k.ID}
			jobs = append(jobs, &job{ob: &obligation{kind: "known", msg: k.ID, cond: smt.And(anyViolation, k.Pred)}, roots: []*smt.Term{anyViolation, k.Pred}, out: &knownObs[i], tag: fmt.Sprintf("%s-%s-kf%d", spec.Func, spec.Tag, i)})
		}
	}
	prep.jobs = jobs
	prep.known = knownObs
}

func (s *Session) finish(prep *Prepared) {
	res, spec, ex := prep.res, prep.spec, prep.ex
	for _, j := range prep.jobs {
		r := j.res
		j.out.Status = r.Status
		j.out.Solver = r.Solver
		j.out.TimeS = r.TimeS
		j.out.Nodes = smt.Size(j.roots...)
		if r.Status == "error" || r.Status == "unknown" {
			j.out.Detail = strings.TrimSpace(r.Raw)
		}
		if r.Status == "sat" {
			file := s.writeReplay(spec, ex, r.Model, j.tag)
			j.out.File = file
			switch j.ob.kind {
			case "assert", "panic", "known":
				j.out.Replay, j.out.Detail = s.replayNative(spec, file, j.ob.kind, j.ob.msg)
				if tr := ex.DescribeFinal(r.Model); len(tr) > 0 {
					j.out.Detail += " || end of the symbolic schedule: " + strings.Join(tr, "; ")
				}
			case "cover":
				if len(res.Samples) < 3 {
					if data, err := os.ReadFile(file); err == nil {
						res.Samples = append(res.Samples, json.RawMessage(data))
					}
				}
			}
		}
	}
	res.Obligations = append(res.Obligations, prep.known...)
}

func dedupe(in []string) []string {
	seen := map[string]bool{}
	var out []string
	for _, s := range in {
		if !seen[s] {
			seen[s] = true
			out = append(out, s)
		}
	}
	return out
}

type replayFile struct {
	Harness string            `json:"harness"`
	Params  map[string]int    `json:"params"`
	Values  map[string]string `json:"values"`
}

var ReplayDir = "/verif/replays"

func (s *Session) writeReplay(spec HarnessSpec, ex *symex.Exec, model map[string]uint64, tag string) string {
	rf := replayFile{Harness: spec.Func, Params: spec.Params, Values: map[string]string{}}
	if rf.Params == nil {
		rf.Params = map[string]int{}
	}
	for name, t := range ex.Vars {
		if strings.HasPrefix(name, "env_") {
			// environment choices are part of the trace too (native stubs read them)
		}
		v := model[name]
		if t.S.K == smt.KBool {
			if v != 0 {
				rf.Values[name] = "true"
			} else {
				rf.Values[name] = "false"
			}
		} else {
			rf.Values[name] = fmt.Sprint(v)
		}
	}
	os.MkdirAll(ReplayDir, 0o755)
	file := filepath.Join(ReplayDir, tag+".json")
	data, _ := json.MarshalIndent(rf, "", " ")
	os.WriteFile(file, data, 0o644)
	return file
}

// nativeBinary builds (once) the test binary of the harness package with the overlay applied.
func (s *Session) nativeBinary(pkg string) (string, string) { return s.nativeBinaryOpt(pkg, false) }

func (s *Session) nativeBinaryOpt(pkg string, race bool) (string, string) {
	s.nativeMu.Lock()
	defer s.nativeMu.Unlock()
	key := pkg
	if race {
		key = pkg + "#race"
	}
	if b, ok := s.nativeBin[key]; ok {
		return b, s.nativeErr[key]
	}
	ovFile := filepath.Join(s.Scratch, "overlay.json")
	rep := map[string]map[string]string{"Replace": s.ovPaths}
	data, _ := json.Marshal(rep)
	os.WriteFile(ovFile, data, 0o644)
	bin := filepath.Join(s.Scratch, strings.ReplaceAll(key, "/", "_")+".test")
	args := []string{"test", "-c", "-vet=off", "-tags=verif", "-overlay", ovFile, "-o", bin}
	env := append(os.Environ(), "GOFLAGS=-mod=mod", "GOPROXY=off", "GOSUMDB=off", "GOTOOLCHAIN=local")
	if race {
		args = append(args, "-race")
		env = append(env, "CGO_ENABLED=1")
	}
	cmd := exec.Command("go", append(args, "./"+pkg)...)
	cmd.Dir = s.Repo
	cmd.Env = env
	out, err := cmd.CombinedOutput()
	if err != nil {
		s.nativeBin[key] = ""
		s.nativeErr[key] = string(out)
		return "", string(out)
	}
	s.nativeBin[key] = bin
	return bin, ""
}

// replayNative runs the harness natively with the counterexample and reports whether the same failure occurs.
// replayNative runs the counterexample natively; a run that does not show the failure is repeated a few times,
// because the native outcome can depend on things the solver's model does not fix (Go's randomised map iteration
// order, goroutine timing).
func (s *Session) replayNative(spec HarnessSpec, file string, kind, msg string) (string, string) {
	var res, detail string
	t0 := time.Now()
	// Go starts a map iteration at a random slot of the bucket, so for a two-entry map one of the two orders has
	// probability 1/8 only: up to 40 runs, as long as they are quick (45 s in total)
	for attempt := 0; attempt < 40; attempt++ {
		res, detail = s.replayNativeOnce(spec, file, kind, msg)
		if res != "not-reproduced" || time.Since(t0) > 45*time.Second {
			break
		}
	}
	return res, detail
}

func (s *Session) replayNativeOnce(spec HarnessSpec, file string, kind, msg string) (string, string) {
	// lock-discipline counterexamples of harnesses marked "race" are confirmed by the race detector
	race := spec.Race && strings.Contains(msg, "while holding its mutex")
	bin, berr := s.nativeBinaryOpt(spec.Pkg, race)
	if bin == "" {
		return "build-failed", lastLines(berr, 5)
	}
	dir, _ := os.MkdirTemp(s.Scratch, "replay-")
	defer os.RemoveAll(dir)
	to := "60s"
	if race {
		to = "240s"
	}
	args := []string{"-test.run", "^TestVerifReplay$", "-test.timeout", to, "-test.v"}
	if spec.Pkg == "cmd/hidi" {
		args = nil // package main parses its own flags in init
	}
	cmd := exec.Command(bin, args...)
	cmd.Dir = dir
	cmd.Env = append(os.Environ(), "VERIF_REPLAY="+file)
	out, _ := cmd.CombinedOutput()
	text := string(out)
	var line string
	for _, l := range strings.Split(text, "\n") {
		if strings.HasPrefix(strings.TrimSpace(l), "REPLAY-RESULT") {
			line = strings.TrimSpace(l)
		}
	}
	if race {
		if where := raceInCodeUnderTest(text); where != "" {
			return "reproduced", "REPLAY-RESULT kind=assert msg=race detector: DATA RACE in the code under test: " + where
		}
	}
	if line == "" {
		// a failed assertion in a goroutine other than the test's crashes the binary: the panic text tells which
		for _, l := range strings.Split(text, "\n") {
			if i := strings.Index(l, "panic: assert: "); i >= 0 {
				line = "REPLAY-RESULT kind=assert msg=" + strings.TrimSuffix(strings.TrimSpace(l[i+len("panic: assert: "):]), " [recovered]")
				break
			}
			if strings.HasPrefix(l, "fatal error: ") || (strings.HasPrefix(l, "panic: ") && !strings.Contains(l, "assume:")) {
				line = "REPLAY-RESULT kind=panic msg=" + strings.TrimSpace(l)
				break
			}
		}
	}
	if line == "" {
		if strings.Contains(text, "panic: test timed out") {
			line = "REPLAY-RESULT kind=timeout"
		} else {
			return "not-reproduced", "no REPLAY-RESULT line: " + lastLines(text, 6)
		}
	}
	switch kind {
	case "assert":
		if strings.Contains(line, "kind=assert") && strings.Contains(line, "msg="+msg) {
			return "reproduced", line
		}
		// a different failed assertion / a crash is still a reproduced violation of the property
		if strings.Contains(line, "kind=assert") || strings.Contains(line, "kind=panic") {
			return "reproduced", line
		}
	case "panic":
		if strings.Contains(line, "kind=panic") {
			return "reproduced", line
		}
		if strings.Contains(line, "kind=assert") {
			return "reproduced", line
		}
	case "known":
		if strings.Contains(line, "kind=assert") || strings.Contains(line, "kind=panic") || strings.Contains(line, "kind=timeout") {
			return "reproduced", line
		}
	}
	return "not-reproduced", line
}

func lastLines(s string, n int) string {
	ls := strings.Split(strings.TrimSpace(s), "\n")
	if len(ls) > n {
		ls = ls[len(ls)-n:]
	}
	return strings.Join(ls, " | ")
}

var _ ssa.Instruction

// release drops the encoding of a harness whose obligations have been discharged (its result stays).
func (p *Prepared) release() {
	p.ex = nil
	p.jobs = nil
}

// raceInCodeUnderTest scans race-detector output for a report in which at least one of the two conflicting accesses
// has its innermost repository frame in the code under test (not in an overlay harness file, not in the verifrt
// runtime); it returns "file:line <-> file:line" of the first such report, or "".
func raceInCodeUnderTest(text string) string {
	for _, block := range strings.Split(text, "WARNING: DATA RACE")[1:] {
		if i := strings.Index(block, "=================="); i >= 0 {
			block = block[:i]
		}
		lines := strings.Split(block, "\n")
		var tops []string
		for i, l := range lines {
			t := strings.TrimSpace(l)
			if (strings.HasPrefix(t, "Read at") || strings.HasPrefix(t, "Write at") || strings.HasPrefix(t, "Previous read at") || strings.HasPrefix(t, "Previous write at") ||
				strings.HasPrefix(t, "Atomic") || strings.HasPrefix(t, "Previous atomic")) && i+2 < len(lines) {
				// innermost frame that belongs to the repository: skip runtime/library frames (map access helpers etc.)
				for j := i + 1; j+1 < len(lines) && strings.TrimSpace(lines[j]) != ""; j += 2 {
					loc := strings.TrimSpace(lines[j+1])
					if strings.HasPrefix(loc, "/repo/") {
						tops = append(tops, strings.Fields(loc)[0])
						break
					}
				}
			}
		}
		if len(tops) != 2 {
			continue
		}
		// at least one of the two accesses is made by the code under test (the other may be the harness's
		// stand-in for a concurrent writer); races between two harness accesses are not about the repository
		under := false
		for _, t := range tops {
			if !strings.Contains(t, "/zz_verif_") && !strings.Contains(t, "/internal/verifrt/") {
				under = true
			}
		}
		if under {
			return strings.TrimPrefix(tops[0], "/repo/") + " <-> " + strings.TrimPrefix(tops[1], "/repo/")
		}
	}
	return ""
}
