package symex

import (
	"fmt"
	"go/types"

	"golang.org/x/tools/go/ssa"
	"verif/engine/smt"
)

// ---------- arrays / strings indexing ----------

func (ex *Exec) indexArray(st *State, site ssa.Instruction, elems []Value, idx *smt.Term, off int, length *smt.Term) Value {
	ex.implicitPanic(st, site, "index out of range", smt.Uge(idx, length))
	if st.dead {
		return nil
	}
	if idx.IsConst() {
		return elems[off+int(idx.V)]
	}
	n := len(elems) - off
	if length.IsConst() && int(length.V) < n {
		n = int(length.V)
	}
	var r Value
	for k := n - 1; k >= 0; k-- {
		if r == nil {
			r = elems[off+k]
		} else {
			r = mergeV(smt.Eq(idx, bv64(int64(k))), elems[off+k], r)
		}
	}
	return r
}

func (ex *Exec) indexStr(st *State, site ssa.Instruction, s *StrV, idx *smt.Term) Value {
	ex.implicitPanic(st, site, "string index out of range", smt.Uge(idx, s.Len))
	if st.dead {
		return nil
	}
	if idx.IsConst() {
		if int(idx.V) >= len(s.B) {
			st.kill()
			return nil
		}
		return s.B[idx.V]
	}
	var r *smt.Term
	for k := len(s.B) - 1; k >= 0; k-- {
		if r == nil {
			r = s.B[k]
		} else {
			r = smt.Ite(smt.Eq(idx, bv64(int64(k))), s.B[k], r)
		}
	}
	if r == nil {
		st.kill()
		return nil
	}
	return r
}

func (ex *Exec) strConcat(a, b *StrV) *StrV {
	if a.Len.IsConst() {
		n := int(a.Len.V)
		bs := append(append([]*smt.Term(nil), a.B[:n]...), b.B...)
		return &StrV{Len: smt.Add(a.Len, b.Len), B: bs}
	}
	// symbolic left length: case split over possible lengths
	na, nb := len(a.B), len(b.B)
	bs := make([]*smt.Term, na+nb)
	for i := range bs {
		// byte i = a[i] if i < lenA else b[i-lenA]
		var r *smt.Term = smt.Const(8, 0)
		for la := na; la >= 0; la-- {
			var v *smt.Term
			if i < la {
				v = a.B[i]
			} else if i-la < nb {
				v = b.B[i-la]
			} else {
				v = smt.Const(8, 0)
			}
			r = smt.Ite(smt.Eq(a.Len, bv64(int64(la))), v, r)
		}
		bs[i] = r
	}
	return &StrV{Len: smt.Add(a.Len, b.Len), B: bs}
}

func (ex *Exec) strToBytes(st *State, s *StrV) Value {
	n := len(s.B)
	e := make([]Value, n)
	for i := range e {
		e[i] = s.B[i]
	}
	id := ex.newObj(st, &ArrayV{E: e})
	return &SliceV{Obj: id, Off: 0, Len: s.Len, Cap: n, MaxLen: n}
}

func (ex *Exec) bytesToStr(st *State, site ssa.Instruction, v *SliceV) Value {
	if v.Obj == 0 {
		return ConcreteStr("")
	}
	arr := ex.get(st, v.Obj).(*ArrayV)
	n := v.MaxLen
	b := make([]*smt.Term, n)
	for i := 0; i < n; i++ {
		b[i] = arr.E[v.Off+i].(*smt.Term)
	}
	return &StrV{Len: v.Len, B: b}
}

// substr returns s[lo:hi] for possibly symbolic lo/hi (bounds already checked).
func substr(s *StrV, lo, hi *smt.Term) *StrV {
	ln := smt.Sub(hi, lo)
	if lo.IsConst() {
		l := int(lo.V)
		if l > len(s.B) {
			l = len(s.B)
		}
		b := s.B[l:]
		if hi.IsConst() {
			h := int(hi.V)
			if h > len(s.B) {
				h = len(s.B)
			}
			if h < l {
				h = l
			}
			b = s.B[l:h]
		}
		return &StrV{Len: ln, B: append([]*smt.Term(nil), b...)}
	}
	n := len(s.B)
	bs := make([]*smt.Term, n)
	for i := 0; i < n; i++ {
		var r *smt.Term = smt.Const(8, 0)
		for l := n - 1; l >= 0; l-- {
			if i+l < n {
				r = smt.Ite(smt.Eq(lo, bv64(int64(l))), s.B[i+l], r)
			}
		}
		bs[i] = r
	}
	return &StrV{Len: ln, B: bs}
}

// ---------- slices ----------

func (ex *Exec) makeSlice(st *State, et types.Type, n, cp int) *SliceV {
	e := make([]Value, cp)
	if cp > 0 {
		z := ex.zero(et)
		for i := range e {
			e[i] = z
		}
	}
	id := ex.newObj(st, &ArrayV{E: e})
	return &SliceV{Obj: id, Off: 0, Len: bv64(int64(n)), Cap: cp, MaxLen: n}
}

func (ex *Exec) sliceOp(st *State, fr *Frame, in *ssa.Slice) Value {
	x := ex.val(fr, in.X)
	var lo, hi *smt.Term
	if in.Low != nil {
		lo = ex.toIdx(ex.val(fr, in.Low), in.Low.Type())
	}
	if in.High != nil {
		hi = ex.toIdx(ex.val(fr, in.High), in.High.Type())
	}
	return ex.withChoice(st, x, func(st *State, v Value) Value {
		switch s := v.(type) {
		case *StrV:
			l, h := lo, hi
			if l == nil {
				l = bv64(0)
			}
			if h == nil {
				h = s.Len
			}
			ex.implicitPanic(st, in, "slice bounds out of range", smt.Or(smt.Ugt(h, s.Len), smt.Ugt(l, h)))
			if st.dead {
				return nil
			}
			return substr(s, l, h)
		case *SliceV:
			l, h := lo, hi
			if l == nil {
				l = bv64(0)
			}
			if h == nil {
				h = s.Len
			}
			ex.implicitPanic(st, in, "slice bounds out of range", smt.Or(smt.Ugt(h, bv64(int64(s.Cap))), smt.Ugt(l, h)))
			if st.dead {
				return nil
			}
			if !l.IsConst() {
				panic(unsupported("slice with symbolic low bound"))
			}
			lo := int(l.V)
			ml := s.Cap - lo
			if h.IsConst() {
				ml = int(h.V) - lo
			} else if hi == nil {
				ml = s.MaxLen - lo
			}
			if ml < 0 {
				ml = 0
			}
			return &SliceV{Obj: s.Obj, Off: s.Off + lo, Len: smt.Sub(h, l), Cap: s.Cap - lo, MaxLen: ml}
		case *PtrV: // *[N]T
			arr := ex.load(st, in, s).(*ArrayV)
			if len(s.Path) != 0 {
				panic(unsupported("slicing an array that is not a whole object"))
			}
			n := len(arr.E)
			l, h := 0, n
			if lo != nil {
				if !lo.IsConst() {
					panic(unsupported("array slice symbolic low"))
				}
				l = int(lo.V)
			}
			if hi != nil {
				if !hi.IsConst() {
					panic(unsupported("array slice symbolic high"))
				}
				h = int(hi.V)
			}
			return &SliceV{Obj: s.Obj, Off: l, Len: bv64(int64(h - l)), Cap: n - l, MaxLen: h - l}
		case *NilV:
			return &SliceV{Obj: 0, Len: bv64(0)}
		}
		panic(unsupported("slice of " + describe(v)))
	})
}

func (ex *Exec) sliceElems(st *State, s *SliceV) []Value {
	if s.Obj == 0 {
		return nil
	}
	arr := ex.get(st, s.Obj).(*ArrayV)
	return arr.E[s.Off : s.Off+s.MaxLen]
}

func (ex *Exec) appendOp(st *State, site ssa.Instruction, sv Value, tv Value, et types.Type) Value {
	var add []Value
	var addLen *smt.Term
	switch t := tv.(type) {
	case *SliceV:
		add = ex.sliceElems(st, t)
		addLen = t.Len
	case *StrV:
		for _, b := range t.B {
			add = append(add, b)
		}
		addLen = t.Len
	case *NilV:
		addLen = bv64(0)
	default:
		panic(unsupported("append of " + describe(tv)))
	}
	if !addLen.IsConst() {
		panic(unsupported("append of a slice with symbolic length"))
	}
	n := int(addLen.V)
	add = add[:n]
	return ex.withChoice(st, sv, func(st *State, v Value) Value {
		s, ok := v.(*SliceV)
		if !ok {
			if _, isNil := v.(*NilV); isNil {
				s = &SliceV{Obj: 0, Len: bv64(0)}
			} else {
				panic(unsupported("append to " + describe(v)))
			}
		}
		if n == 0 {
			return s
		}
		if s.Obj != 0 && s.MaxLen+n <= s.Cap {
			arr := ex.get(st, s.Obj).(*ArrayV)
			e := append([]Value(nil), arr.E...)
			if s.Len.IsConst() {
				l := int(s.Len.V)
				for i := 0; i < n; i++ {
					e[s.Off+l+i] = add[i]
				}
			} else {
				for pos := 0; pos < s.MaxLen+n; pos++ {
					for i := 0; i < n; i++ {
						if pos-i < 0 || pos-i > s.MaxLen {
							continue
						}
						e[s.Off+pos] = mergeV(smt.Eq(s.Len, bv64(int64(pos-i))), add[i], e[s.Off+pos])
					}
				}
			}
			st.heap[s.Obj] = &ArrayV{E: e}
			return &SliceV{Obj: s.Obj, Off: s.Off, Len: smt.Add(s.Len, addLen), Cap: s.Cap, MaxLen: s.MaxLen + n}
		}
		// grow
		need := s.MaxLen + n
		cp := 2 * need
		if cp < 8 {
			cp = 8
		}
		if s.Len.IsConst() && !ex.inE2 {
			// (sequential runs; inside the scheduler-driven concurrent runs the generous capacity is kept: every
			// re-allocation multiplies the guarded alternatives there)
			// a slice of known length grows exactly as the Go 1.23 runtime grows it (doubling below 256 elements,
			// rounded up to an allocation size class): whether an earlier &s[i] still points into the live backing
			// array after an append depends on it
			cp = goGrowCap(s.Cap, need, ex.sizeOf(et))
		}
		e := make([]Value, cp)
		z := ex.zero(et)
		for i := range e {
			e[i] = z
		}
		old := ex.sliceElems(st, s)
		copy(e, old)
		if s.Len.IsConst() {
			l := int(s.Len.V)
			for i := 0; i < n; i++ {
				e[l+i] = add[i]
			}
		} else {
			for pos := 0; pos < need; pos++ {
				for i := 0; i < n; i++ {
					if pos-i < 0 || pos-i > s.MaxLen {
						continue
					}
					e[pos] = mergeV(smt.Eq(s.Len, bv64(int64(pos-i))), add[i], e[pos])
				}
			}
		}
		id := ex.newObj(st, &ArrayV{E: e})
		return &SliceV{Obj: id, Off: 0, Len: smt.Add(s.Len, addLen), Cap: cp, MaxLen: need}
	})
}

// ---------- maps ----------

// newMapC chooses the array-backed representation for maps from small integers to scalars.
func (ex *Exec) newMapC(mt *types.Map) *MapC {
	ks, okK := sortOf(mt.Key())
	vs, okV := sortOf(mt.Elem())
	if okK && okV && ks.K == smt.KBV && ks.W <= 16 && !ex.NoArrMaps {
		zero := ex.zero(mt.Elem()).(*smt.Term)
		_ = vs
		return &MapC{KT: mt.Key(), VT: mt.Elem(), Arr: true,
			Pres: smt.ArrConst(ks.W, smt.False), Val: smt.ArrConst(ks.W, zero), Count: bv64(0)}
	}
	return &MapC{KT: mt.Key(), VT: mt.Elem()}
}

func (ex *Exec) keyEq(a, b Value) *smt.Term { return ex.eqV(a, b) }

func (ex *Exec) mapLookup(st *State, m Value, k Value, mt *types.Map) (Value, *smt.Term) {
	zero := ex.zero(mt.Elem())
	mv, ok := m.(*MapV)
	if !ok {
		if _, isNil := m.(*NilV); isNil {
			return zero, smt.False
		}
		if op, isOp := m.(*Opaque); isOp {
			return ex.opaqueMapLookup(st, op, k, mt)
		}
		panic(unsupported("lookup in " + describe(m)))
	}
	mc := ex.get(st, mv.Obj).(*MapC)
	if mc.Arr {
		kt := k.(*smt.Term)
		if kt.IsConst() && mc.Sure[kt.V] {
			return smt.Select(mc.Val, kt), smt.True
		}
		return smt.Select(mc.Val, kt), smt.Select(mc.Pres, kt)
	}
	// fast path: concrete key identity match with constant presence
	ki := keyIdent(k)
	found := smt.False
	val := zero
	// iterate from last to first so that the ite chain prefers nothing (keys are distinct when present)
	for i := len(mc.Entries) - 1; i >= 0; i-- {
		e := mc.Entries[i]
		var eq *smt.Term
		if keyIdent(e.K) == ki {
			eq = smt.True
		} else {
			eq = ex.keyEq(k, e.K)
		}
		hit := smt.And(e.P, eq)
		if hit.IsFalse() {
			continue
		}
		if hit.IsTrue() {
			return e.V, smt.True
		}
		val = mergeV(hit, e.V, val)
		found = smt.Or(hit, found)
	}
	return val, found
}

func (ex *Exec) mapUpdate(st *State, site ssa.Instruction, m Value, k Value, v Value) {
	mv, ok := m.(*MapV)
	if !ok {
		if _, isNil := m.(*NilV); isNil {
			ex.panicOutcome(st, "assignment to entry in nil map", site, st.pc)
			st.kill()
			return
		}
		panic(unsupported("map update on " + describe(m)))
	}
	mc := ex.get(st, mv.Obj).(*MapC)
	if mc.Arr {
		kt := k.(*smt.Term)
		was := smt.Select(mc.Pres, kt)
		sure := mc.Sure
		if kt.IsConst() {
			if sure[kt.V] {
				was = smt.True
			} else {
				ns := make(map[uint64]bool, len(sure)+1)
				for a, b := range sure {
					ns[a] = b
				}
				ns[kt.V] = true
				sure = ns
			}
		}
		pres := mc.Pres
		if !was.IsTrue() {
			pres = smt.Store(mc.Pres, kt, smt.True)
		}
		cand := mc.Cand
		dup := false
		for _, c := range cand {
			if c == kt {
				dup = true
				break
			}
		}
		if !dup {
			cand = append(append([]*smt.Term(nil), cand...), kt)
		}
		st.heap[mv.Obj] = &MapC{KT: mc.KT, VT: mc.VT, Arr: true, Pres: pres, Val: smt.Store(mc.Val, kt, v.(*smt.Term)),
			Count: smt.Add(mc.Count, smt.Ite(was, bv64(0), bv64(1))), Cand: cand, Sure: sure}
		return
	}
	ki := keyIdent(k)
	out := make([]MapEntry, 0, len(mc.Entries)+1)
	placed := false
	for _, e := range mc.Entries {
		if keyIdent(e.K) == ki {
			if !placed {
				out = append(out, MapEntry{K: k, P: smt.True, V: v})
				placed = true
			}
			continue
		}
		eq := ex.keyEq(k, e.K)
		p := smt.And(e.P, smt.Not(eq))
		if p.IsFalse() {
			continue
		}
		out = append(out, MapEntry{K: e.K, P: p, V: e.V})
	}
	if !placed {
		out = append(out, MapEntry{K: k, P: smt.True, V: v})
	}
	st.heap[mv.Obj] = &MapC{Entries: out, KT: mc.KT, VT: mc.VT}
}

func (ex *Exec) mapDelete(st *State, m Value, k Value) {
	mv, ok := m.(*MapV)
	if !ok {
		return // delete on nil map is a no-op
	}
	mc := ex.get(st, mv.Obj).(*MapC)
	if mc.Arr {
		kt := k.(*smt.Term)
		was := smt.Select(mc.Pres, kt)
		var sure map[uint64]bool
		if kt.IsConst() {
			if mc.Sure[kt.V] {
				was = smt.True
			}
			sure = make(map[uint64]bool, len(mc.Sure))
			for a, b := range mc.Sure {
				if a != kt.V {
					sure[a] = b
				}
			}
		} // a symbolic delete may remove any key: nothing stays certain
		zero := ex.zero(mc.VT).(*smt.Term)
		st.heap[mv.Obj] = &MapC{KT: mc.KT, VT: mc.VT, Arr: true, Pres: smt.Store(mc.Pres, kt, smt.False), Val: smt.Store(mc.Val, kt, zero),
			Count: smt.Sub(mc.Count, smt.Ite(was, bv64(1), bv64(0))), Cand: mc.Cand, Sure: sure}
		return
	}
	out := make([]MapEntry, 0, len(mc.Entries))
	for _, e := range mc.Entries {
		eq := ex.keyEq(k, e.K)
		p := smt.And(e.P, smt.Not(eq))
		if p.IsFalse() {
			continue
		}
		out = append(out, MapEntry{K: e.K, P: p, V: e.V})
	}
	st.heap[mv.Obj] = &MapC{Entries: out, KT: mc.KT, VT: mc.VT}
}

func (ex *Exec) mapLen(st *State, m Value) *smt.Term {
	mv, ok := m.(*MapV)
	if !ok {
		return bv64(0)
	}
	mc := ex.get(st, mv.Obj).(*MapC)
	if mc.Arr {
		return mc.Count
	}
	n := bv64(0)
	for _, e := range mc.Entries {
		n = smt.Add(n, smt.Ite(e.P, bv64(1), bv64(0)))
	}
	return n
}

// ---------- range ----------

func (ex *Exec) rangeStart(st *State, in *ssa.Range, x Value) Value {
	switch v := x.(type) {
	case *StrV:
		if _, ok := v.Concrete(); !ok {
			panic(unsupported("range over symbolic string"))
		}
		id := ex.newObj(st, &IterC{IsStr: true, Str: v})
		return &IterV{Obj: id}
	case *MapV:
		ex.checkProtected(st, in, v.Obj, "map range")
		mc := ex.get(st, v.Obj).(*MapC)
		it := &IterC{MapObj: v.Obj}
		if mc.Arr {
			for _, k := range mc.Cand {
				if !(k.IsConst() && mc.Sure[k.V]) && smt.Select(mc.Pres, k).IsFalse() {
					continue
				}
				it.Keys = append(it.Keys, k)
				it.ToVisit = append(it.ToVisit, smt.True)
			}
		}
		for _, e := range mc.Entries {
			it.Keys = append(it.Keys, e.K)
			it.ToVisit = append(it.ToVisit, smt.True)
		}
		it.Distinct = true
		seenK := map[string]bool{}
		for _, k := range it.Keys {
			t, isT := k.(*smt.Term)
			if (isT && !t.IsConst()) || seenK[keyIdent(k)] {
				it.Distinct = false
				break
			}
			if !isT {
				if sv, isS := k.(*StrV); !isS {
					it.Distinct = false
					break
				} else if _, c := sv.Concrete(); !c {
					it.Distinct = false
					break
				}
			}
			seenK[keyIdent(k)] = true
		}
		if ex.PermuteMaps && len(it.Keys) > 1 && len(it.Keys) <= 4 {
			ex.permuteIter(st, it)
			it.Distinct = false
		}
		id := ex.newObj(st, it)
		return &IterV{Obj: id}
	case *NilV:
		id := ex.newObj(st, &IterC{MapObj: 0})
		return &IterV{Obj: id}
	case *ChoiceV:
		// one iterator per alternative; Next distributes over the choice
		return ex.withChoice(st, v, func(st *State, a Value) Value { return ex.rangeStart(st, in, a) })
	}
	panic(unsupported("range over " + describe(x)))
}

// permuteIter reorders the candidate keys by a fresh symbolic rotation+swap (covers all orders for n<=3, and
// a 2n-element subset of orders for n=4).
func (ex *Exec) permuteIter(st *State, it *IterC) {
	n := len(it.Keys)
	ex.opaqueSeq++
	rot := ex.NondetVar(fmt.Sprintf("maporder_rot_%d", ex.opaqueSeq), smt.BV(8))
	rev := ex.NondetVar(fmt.Sprintf("maporder_rev_%d", ex.opaqueSeq), smt.Bool)
	st.assume(smt.Ult(rot, smt.Const(8, uint64(n))))
	keys := make([]Value, n)
	for i := 0; i < n; i++ {
		// position i holds key (rev ? n-1-((i+rot)%n) : (i+rot)%n)
		var r Value
		for rv := 0; rv < n; rv++ {
			j := (i + rv) % n
			fw := it.Keys[j]
			bw := it.Keys[n-1-j]
			cand := mergeV(rev, bw, fw)
			if r == nil {
				r = cand
			} else {
				r = mergeV(smt.Eq(rot, smt.Const(8, uint64(rv))), cand, r)
			}
		}
		keys[i] = r
	}
	it.Keys = keys
}

func (ex *Exec) rangeNext(st *State, in *ssa.Next, itv Value) Value {
	if _, ok := itv.(*ChoiceV); ok {
		return ex.withChoice(st, itv, func(st *State, a Value) Value { return ex.rangeNext(st, in, a) })
	}
	iv := itv.(*IterV)
	it := ex.get(st, iv.Obj).(*IterC)
	if it.Invalid {
		panic(unsupported("use of a range iterator after its paths diverged"))
	}
	tup := in.Type().(*types.Tuple)
	if it.IsStr {
		s, _ := it.Str.Concrete()
		if it.Pos >= len(s) {
			return &TupleV{E: []Value{smt.False, ex.zero(tup.At(1).Type()), ex.zero(tup.At(2).Type())}}
		}
		// decode one rune
		r, size := decodeRune(s[it.Pos:])
		pos := it.Pos
		st.heap[iv.Obj] = &IterC{IsStr: true, Str: it.Str, Pos: it.Pos + size}
		return &TupleV{E: []Value{smt.True, bv64(int64(pos)), smt.ConstI(32, int64(r))}}
	}
	kt, vt := tup.At(1).Type(), tup.At(2).Type()
	if it.MapObj == 0 || len(it.Keys) == 0 {
		return &TupleV{E: []Value{smt.False, ex.zero(kt), ex.zero(vt)}}
	}
	mc := ex.get(st, it.MapObj).(*MapC)
	mt := types.NewMap(mc.KT, mc.VT)
	n := len(it.Keys)
	start := it.Start
	// presence and value of each candidate key in the current map state (computed lazily: stop at the first
	// candidate that is certainly present)
	pres := make([]*smt.Term, n)
	vals := make([]Value, n)
	var key, val Value = ex.zero(mc.KT), ex.zero(mc.VT)
	chosen := make([]*smt.Term, n)
	before := smt.False // some earlier candidate chosen
	last := n
	for i := start; i < n; i++ {
		k := it.Keys[i]
		if it.ToVisit[i].IsFalse() {
			pres[i] = smt.False
			chosen[i] = smt.False
			continue
		}
		v, p := ex.mapLookup(st, &MapV{Obj: it.MapObj}, k, mt)
		// a candidate equal to an earlier candidate is visited only once
		if !it.Distinct {
			for j := 0; j < i; j++ {
				if keyIdent(it.Keys[j]) != keyIdent(k) {
					p = smt.And(p, smt.Not(ex.keyEq(it.Keys[j], k)))
				} else {
					p = smt.False
				}
			}
		}
		pres[i] = smt.And(it.ToVisit[i], p)
		vals[i] = v
		chosen[i] = smt.And(pres[i], smt.Not(before))
		before = smt.Or(before, pres[i])
		if before.IsTrue() {
			last = i + 1
			break
		}
	}
	ok := before
	for i := last - 1; i >= start; i-- {
		if chosen[i].IsFalse() {
			continue
		}
		key = mergeV(chosen[i], it.Keys[i], key)
		val = mergeV(chosen[i], vals[i], val)
	}
	// new to-visit: entries after the chosen one
	tv := append([]*smt.Term(nil), it.ToVisit...)
	seenChosen := smt.False
	for i := start; i < n; i++ {
		if i < last {
			tv[i] = smt.And(it.ToVisit[i], seenChosen)
			seenChosen = smt.Or(seenChosen, chosen[i])
		} else {
			tv[i] = smt.And(it.ToVisit[i], seenChosen)
		}
	}
	for start < n && tv[start].IsFalse() {
		start++
	}
	st.heap[iv.Obj] = &IterC{MapObj: it.MapObj, Keys: it.Keys, ToVisit: tv, Start: start, Distinct: it.Distinct}
	if ex.Trace && last > 100 && it.Start < n {
		println("ITERDETAIL key0", describe(it.Keys[it.Start]), "tv", describe(it.ToVisit[it.Start]), "pres", describe(pres[it.Start]))
	}
	if ex.Trace {
		println("ITER obj", it.MapObj, "n", n, "start", it.Start, "->", start, "last", last, "distinct", it.Distinct, "sure", len(mc.Sure), "terms", smt.NumTerms)
	}
	return &TupleV{E: []Value{ok, key, val}}
}

func decodeRune(s string) (rune, int) {
	for i, r := range s {
		_ = i
		n := len(string(r))
		if r == 0xFFFD {
			n = 1
		}
		return r, n
	}
	return 0, 0
}

// ---------- channels (sequential mode: bounded FIFO logs) ----------

func (ex *Exec) chanSend(st *State, site ssa.Instruction, c Value, v Value) {
	cv, ok := c.(*ChanV)
	if !ok {
		if _, isNil := c.(*NilV); isNil {
			ex.outcome("blocked", "send on nil channel blocks forever", site, st.pc)
			st.kill()
			return
		}
		panic(unsupported("send on " + describe(c)))
	}
	cc := ex.get(st, cv.Obj).(*ChanC)
	ex.implicitPanic(st, site, "send on closed channel", cc.Closed)
	if st.dead {
		return
	}
	if cc.Ring {
		sl := make([]Value, len(cc.Slots))
		for i := range sl {
			sl[i] = mergeV(smt.Eq(cc.Len, bv64(int64(i))), v, cc.Slots[i])
		}
		st.assume(smt.Ult(cc.Len, bv64(int64(len(cc.Slots))))) // the scheduler only runs a send that can proceed
		st.heap[cv.Obj] = &ChanC{Ring: true, Slots: sl, Len: smt.Add(cc.Len, bv64(1)), Closed: cc.Closed, Cap: cc.Cap}
		return
	}
	e := append(append([]ChanEntry(nil), cc.Entries...), ChanEntry{G: smt.True, V: v})
	st.heap[cv.Obj] = &ChanC{Entries: e, Closed: cc.Closed, Cap: cc.Cap, Sent: cc.Sent + 1}
}

func (ex *Exec) chanLen(st *State, c Value) *smt.Term {
	cv, ok := c.(*ChanV)
	if !ok {
		return bv64(0)
	}
	cc := ex.get(st, cv.Obj).(*ChanC)
	if cc.Ring {
		return cc.Len
	}
	n := bv64(0)
	for _, e := range cc.Entries {
		n = smt.Add(n, smt.Ite(e.G, bv64(1), bv64(0)))
	}
	return n
}

func (ex *Exec) chanRecv(st *State, site ssa.Instruction, c Value, commaOk bool, rt types.Type) Value {
	cv, ok := c.(*ChanV)
	if !ok {
		if _, isNil := c.(*NilV); isNil {
			ex.outcome("blocked", "receive from nil channel blocks forever", site, st.pc)
			st.kill()
			return nil
		}
		panic(unsupported("receive from " + describe(c)))
	}
	cc := ex.get(st, cv.Obj).(*ChanC)
	var et types.Type
	if commaOk {
		et = rt.(*types.Tuple).At(0).Type()
	} else {
		et = rt
	}
	zero := ex.zero(et)
	if cc.Ring {
		nonEmpty := smt.Not(smt.Eq(cc.Len, bv64(0)))
		blocked := smt.And(smt.Not(nonEmpty), smt.Not(cc.Closed))
		st.assume(smt.Not(blocked))
		if st.dead {
			return nil
		}
		val := mergeV(nonEmpty, cc.Slots[0], zero)
		sl := make([]Value, len(cc.Slots))
		for i := range sl {
			if i+1 < len(cc.Slots) {
				sl[i] = mergeV(nonEmpty, cc.Slots[i+1], cc.Slots[i])
			} else {
				sl[i] = cc.Slots[i]
			}
		}
		st.heap[cv.Obj] = &ChanC{Ring: true, Slots: sl, Len: smt.Ite(nonEmpty, smt.Sub(cc.Len, bv64(1)), cc.Len), Closed: cc.Closed, Cap: cc.Cap}
		if commaOk {
			return &TupleV{E: []Value{val, nonEmpty}}
		}
		return val
	}
	// first present entry
	some := smt.False
	var val Value = zero
	n := len(cc.Entries)
	chosen := make([]*smt.Term, n)
	for i := 0; i < n; i++ {
		chosen[i] = smt.And(cc.Entries[i].G, smt.Not(some))
		some = smt.Or(some, cc.Entries[i].G)
	}
	for i := n - 1; i >= 0; i-- {
		if chosen[i].IsFalse() {
			continue
		}
		val = mergeV(chosen[i], cc.Entries[i].V, val)
	}
	// empty and not closed: blocks forever in sequential mode
	blocked := smt.And(smt.Not(some), smt.Not(cc.Closed))
	if ex.inE2 {
		// the scheduler only runs a receive that can proceed
		st.assume(smt.Not(blocked))
		if st.dead {
			return nil
		}
	} else if !blocked.IsFalse() {
		ex.outcome("blocked", "receive on empty open channel (sequential mode)", site, smt.And(st.pc, blocked))
		st.assume(smt.Not(blocked))
		if st.dead {
			return nil
		}
	}
	var out []ChanEntry
	for i := 0; i < n; i++ {
		g := smt.And(cc.Entries[i].G, smt.Not(chosen[i]))
		if g.IsFalse() {
			continue
		}
		out = append(out, ChanEntry{G: g, V: cc.Entries[i].V})
	}
	st.heap[cv.Obj] = &ChanC{Entries: out, Closed: cc.Closed, Cap: cc.Cap, Sent: cc.Sent}
	if commaOk {
		return &TupleV{E: []Value{val, some}}
	}
	return val
}

func (ex *Exec) chanClose(st *State, site ssa.Instruction, c Value) {
	cv, ok := c.(*ChanV)
	if !ok {
		ex.panicOutcome(st, "close of nil channel", site, st.pc)
		st.kill()
		return
	}
	cc := ex.get(st, cv.Obj).(*ChanC)
	ex.implicitPanic(st, site, "close of closed channel", cc.Closed)
	if st.dead {
		return
	}
	if cc.Ring {
		st.heap[cv.Obj] = &ChanC{Ring: true, Slots: cc.Slots, Len: cc.Len, Closed: smt.True, Cap: cc.Cap}
		return
	}
	st.heap[cv.Obj] = &ChanC{Entries: cc.Entries, Closed: smt.True, Cap: cc.Cap, Sent: cc.Sent}
}

// ---------- builtins ----------

func (ex *Exec) builtin(st *State, fr *Frame, site ssa.Instruction, b *ssa.Builtin, c *ssa.CallCommon, args []Value) Value {
	switch b.Name() {
	case "len":
		return ex.withChoice(st, args[0], func(st *State, v Value) Value {
			switch x := v.(type) {
			case *StrV:
				return x.Len
			case *SliceV:
				return x.Len
			case *MapV:
				ex.checkProtected(st, site, x.Obj, "map len")
				return ex.mapLen(st, x)
			case *ChanV:
				return ex.chanLen(st, x)
			case *NilV:
				return bv64(0)
			case *ArrayV:
				return bv64(int64(len(x.E)))
			case *PtrV:
				return bv64(int64(len(ex.load(st, site, x).(*ArrayV).E)))
			}
			panic(unsupported("len of " + describe(v)))
		})
	case "cap":
		return ex.withChoice(st, args[0], func(st *State, v Value) Value {
			switch x := v.(type) {
			case *SliceV:
				return bv64(int64(x.Cap))
			case *ChanV:
				return bv64(int64(ex.get(st, x.Obj).(*ChanC).Cap))
			case *NilV:
				return bv64(0)
			case *ArrayV:
				return bv64(int64(len(x.E)))
			}
			panic(unsupported("cap of " + describe(v)))
		})
	case "append":
		var et types.Type
		if sl, ok := c.Args[0].Type().Underlying().(*types.Slice); ok {
			et = sl.Elem()
		}
		return ex.appendOp(st, site, args[0], args[1], et)
	case "delete":
		ex.withChoice(st, args[0], func(st *State, m Value) Value {
			if mv, isMap := m.(*MapV); isMap {
				ex.checkProtected(st, site, mv.Obj, "map delete")
			}
			ex.mapDelete(st, m, args[1])
			return nil
		})
		return nil
	case "close":
		ex.withChoice(st, args[0], func(st *State, ch Value) Value {
			ex.chanClose(st, site, ch)
			return nil
		})
		return nil
	case "print", "println":
		return nil
	case "ssa:wrapnilchk":
		if _, ok := args[0].(*NilV); ok {
			ex.panicOutcome(st, "nil receiver in method wrapper", site, st.pc)
			st.kill()
			return nil
		}
		return args[0]
	case "recover":
		if ex.recoverVal != nil {
			v := ex.recoverVal
			ex.recoverVal = nil
			return v
		}
		return Nil
	case "copy":
		dst, ok1 := args[0].(*SliceV)
		if !ok1 {
			panic(unsupported("copy to " + describe(args[0])))
		}
		var src []Value
		var srcLen *smt.Term
		switch s := args[1].(type) {
		case *SliceV:
			src, srcLen = ex.sliceElems(st, s), s.Len
		case *StrV:
			for _, t := range s.B {
				src = append(src, t)
			}
			srcLen = s.Len
		default:
			panic(unsupported("copy from " + describe(args[1])))
		}
		if !dst.Len.IsConst() || !srcLen.IsConst() {
			panic(unsupported("copy with symbolic lengths"))
		}
		n := int(dst.Len.V)
		if int(srcLen.V) < n {
			n = int(srcLen.V)
		}
		if n > 0 {
			arr := ex.get(st, dst.Obj).(*ArrayV)
			e := append([]Value(nil), arr.E...)
			for i := 0; i < n; i++ {
				e[dst.Off+i] = src[i]
			}
			st.heap[dst.Obj] = &ArrayV{E: e}
		}
		return bv64(int64(n))
	case "min", "max":
		r := args[0].(*smt.Term)
		signed := isSigned(c.Args[0].Type())
		for _, a := range args[1:] {
			t := a.(*smt.Term)
			var lt *smt.Term
			switch {
			case r.S.K == smt.KFP:
				lt = smt.FLt(t, r)
			case signed:
				lt = smt.Slt(t, r)
			default:
				lt = smt.Ult(t, r)
			}
			if b.Name() == "max" {
				lt = smt.Not(lt)
			}
			r = smt.Ite(lt, t, r)
		}
		return r
	}
	panic(unsupported("builtin " + b.Name()))
}

// opaqueMapLookup models a read-only table of an external package (e.g. evdev.KEYFromString) as an
// uninterpreted function: equal keys give equal results (pairwise congruence over the lookups that occur).
func (ex *Exec) opaqueMapLookup(st *State, op *Opaque, k Value, mt *types.Map) (Value, *smt.Term) {
	ur, _ := op.Data["__recs"].(*ufRecs)
	if ur == nil {
		ur = &ufRecs{}
		op.Data["__recs"] = ur
	}
	ki := keyIdent(k)
	for _, r := range ur.list {
		if keyIdent(r.k) == ki {
			return r.v, r.ok
		}
	}
	s, okSort := sortOf(mt.Elem())
	if !okSort || s.K != smt.KBV {
		panic(unsupported("uninterpreted table with non-integer values"))
	}
	v := ex.freshBV("uf_"+op.Tag+"_val", s.W)
	ok := ex.freshBool("uf_" + op.Tag + "_ok")
	for _, r := range ur.list {
		eq := ex.keyEq(k, r.k)
		st.assume(smt.Implies(eq, smt.And(smt.Eq(v, r.v.(*smt.Term)), smt.Eq(ok, r.ok))))
	}
	ur.list = append(ur.list, ufRec{k: k, v: v, ok: ok})
	return v, ok
}

type ufRec struct {
	k  Value
	v  Value
	ok *smt.Term
}
type ufRecs struct{ list []ufRec }

var goSizeClasses = []int64{8, 16, 24, 32, 48, 64, 80, 96, 112, 128, 144, 160, 176, 192, 208, 224, 240, 256, 288, 320, 352, 384, 416, 448, 480,
	512, 576, 640, 704, 768, 896, 1024, 1152, 1280, 1408, 1536, 1792, 2048, 2304, 2688, 3072, 3200, 3456, 4096, 4864, 5120, 5376, 6144,
	6528, 6784, 6912, 8192, 9472, 9728, 10240, 10880, 12288, 13568, 14336, 16384, 18432, 19072, 20480, 21760, 24576, 27264, 28672, 32768}

func goRoundUpSize(n int64) int64 {
	for _, c := range goSizeClasses {
		if n <= c {
			return c
		}
	}
	const page = 8192
	return (n + page - 1) / page * page
}

// goGrowCap: capacity after runtime.growslice (Go 1.23, amd64) for a slice of capacity oldCap that must hold newLen
// elements of elemSize bytes.
func goGrowCap(oldCap, newLen int, elemSize int64) int {
	newcap := newLen
	if doublecap := oldCap * 2; newLen <= doublecap {
		if oldCap < 256 {
			newcap = doublecap
		} else {
			newcap = oldCap
			for newcap < newLen {
				newcap += (newcap + 3*256) >> 2
			}
		}
	}
	if newcap < newLen {
		newcap = newLen
	}
	if elemSize <= 0 {
		return newcap
	}
	return int(goRoundUpSize(int64(newcap)*elemSize) / elemSize)
}

func (ex *Exec) sizeOf(t types.Type) int64 {
	defer func() { recover() }()
	return types.SizesFor("gc", "amd64").Sizeof(t)
}
