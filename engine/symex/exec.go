package symex

import (
	"fmt"
	"go/constant"
	"go/token"
	"go/types"
	"math"
	"strings"

	"golang.org/x/tools/go/ssa"
	"verif/engine/smt"
)

type Outcome struct {
	Kind string // assert | panic | unwind | cover | blocked | unsupported
	Msg  string
	Pos  string
	Cond *smt.Term
	Seq  int
}

type KnownPred struct {
	ID   string
	Pred *smt.Term
}

type StubFn func(ex *Exec, st *State, site ssa.Instruction, fn *ssa.Function, args []Value) Value

type Exec struct {
	Prog                             *ssa.Program
	ModPrefix                        string // import path prefix of code under test (interpreted)
	Outcomes                         []Outcome
	Vars                             map[string]*smt.Term
	VarOrder                         []string
	Unwind                           int // max symbolic decisions per block per frame
	MaxVisits                        int
	nextObj                          int
	globals                          map[*ssa.Global]int
	globalByID                       map[int]*ssa.Global
	pdom                             map[*ssa.Function][]*ssa.BasicBlock
	Stubs                            map[string]StubFn
	Interp                           map[string]bool // external functions interpreted from their SSA
	Encoded                          map[string]bool // functions whose bodies were executed
	StubsUsed                        map[string]int
	Spawned                          []string
	initDone                         map[*ssa.Package]bool
	Trace                            bool
	opaqueSeq                        int
	Forks                            int
	Instrs                           int
	PermuteMaps                      bool
	NoArrMaps                        bool
	GlobalInit                       map[string]func(ex *Exec, st *State) Value // models of package-level data of packages whose init is not run
	Flags                            map[string]bool
	sched                            *sched
	syncIDs                          map[string]int
	inE2                             bool
	eqMemo                           map[[2]interface{}]*smt.Term
	OpenRGB                          StubFn
	RepoDir                          string
	fs                               *fsModel
	notExist                         Value
	curG                             int          // goroutine currently executed by the scheduler (+1), 0 = harness main
	protected                        map[int]int  // object id -> sync cell of the mutex that must be held to touch it
	protectedRW                      map[int]bool // objects for which reads need the mutex as well
	LedDevice, LedCapture, LedCancel Value
	lastClock                        *smt.Term
	catchers                         []*catcher
	skipDir, skipAll                 Value
	lockCells                        []int
	lockPairs                        map[[2]int]string
	recoverVal                       Value
	ctxErr                           Value
	ufMemo                           map[string][]Value
	DecodeFailKind                   *smt.Term
	DecodedList                      []decodedReg // values registered by verifrt.TOMLToken
	WatcherChan                      Value
	WatcherDone                      Value
	Decoded                          Value // value registered by verifrt.TOMLBytes for the decoder stubs
	Params                           map[string]int
	Known                            []KnownPred
	Notes                            []string
}

func NewExec(prog *ssa.Program, modPrefix string) *Exec {
	ex := &Exec{
		Prog: prog, ModPrefix: modPrefix,
		Vars: map[string]*smt.Term{}, Unwind: 16, MaxVisits: 200000, nextObj: 1,
		globals: map[*ssa.Global]int{}, globalByID: map[int]*ssa.Global{},
		pdom: map[*ssa.Function][]*ssa.BasicBlock{}, Stubs: map[string]StubFn{}, Interp: map[string]bool{},
		Encoded: map[string]bool{}, StubsUsed: map[string]int{}, initDone: map[*ssa.Package]bool{},
		GlobalInit: map[string]func(ex *Exec, st *State) Value{},
	}
	registerStubs(ex)
	return ex
}

func (ex *Exec) NewState() *State {
	return &State{heap: map[int]Value{}, pc: smt.True}
}

func (ex *Exec) newObj(st *State, v Value) int {
	id := ex.nextObj
	ex.nextObj++
	st.heap[id] = v
	return id
}

func (ex *Exec) get(st *State, id int) Value {
	if v, ok := st.heap[id]; ok {
		return v
	}
	if g, ok := ex.globalByID[id]; ok {
		var v Value
		if init, ok := ex.GlobalInit[g.String()]; ok {
			v = init(ex, st)
		} else {
			v = ex.zero(g.Type().(*types.Pointer).Elem())
		}
		st.heap[id] = v
		return v
	}
	panic(unsupported(fmt.Sprintf("dangling object id %d", id)))
}

func (ex *Exec) NondetVar(name string, s smt.Sort) *smt.Term {
	if t, ok := ex.Vars[name]; ok {
		if t.S != s {
			panic(unsupported("nondet variable " + name + " used at two sorts"))
		}
		return t
	}
	t := smt.Var(name, s)
	ex.Vars[name] = t
	ex.VarOrder = append(ex.VarOrder, name)
	return t
}

func (ex *Exec) outcome(kind, msg string, site ssa.Instruction, cond *smt.Term) {
	if cond.IsFalse() {
		return
	}
	pos := ""
	if site != nil {
		p := ex.Prog.Fset.Position(site.Pos())
		if !p.IsValid() && site.Block() != nil {
			for _, in := range site.Block().Instrs {
				if q := ex.Prog.Fset.Position(in.Pos()); q.IsValid() {
					p = q
					break
				}
			}
		}
		if !p.IsValid() && site.Parent() != nil {
			p = ex.Prog.Fset.Position(site.Parent().Pos())
		}
		fn := ""
		if site.Parent() != nil {
			fn = site.Parent().String()
		}
		pos = fmt.Sprintf("%s:%d (%s)", shortFile(p.Filename), p.Line, fn)
	}
	ex.Outcomes = append(ex.Outcomes, Outcome{Kind: kind, Msg: msg, Pos: pos, Cond: cond, Seq: len(ex.Outcomes)})
}

func shortFile(f string) string {
	if i := strings.LastIndex(f, "/"); i >= 0 {
		return f[i+1:]
	}
	return f
}

// implicitPanic records a run-time panic under cond and continues on the non-panicking side.
// A frame whose deferred closure calls recover() catches the run-time panics raised below it: instead of being
// recorded as outcomes, the states in which they happen are parked and, when the frame finishes, taken through
// the frame's deferred calls (recover() answering non-nil) and the function's recover block; their results are
// merged with the normal return. Deadlocks and fatal errors are not recoverable and stay outcomes.
type catcher struct {
	fr     *Frame
	defers []*deferEntry // the deferred calls registered up to and including the recovering one
	caught []*caughtState
}

type caughtState struct {
	st     *State
	defers []*deferEntry
}

func (ex *Exec) panicOutcome(st *State, msg string, site ssa.Instruction, cond *smt.Term) {
	if cond.IsFalse() {
		return
	}
	if n := len(ex.catchers); n > 0 && !ex.inE2 {
		c := ex.catchers[n-1]
		s2 := st.clone()
		s2.pc = cond
		s2.dead = false
		c.caught = append(c.caught, &caughtState{st: s2, defers: append([]*deferEntry(nil), c.defers...)})
		ex.Notes = append(ex.Notes, "a run-time panic below "+c.fr.fn.String()+" is recovered by its deferred function ("+msg+")")
		return
	}
	ex.outcome("panic", msg, site, cond)
}

// recovers: the function (a deferred closure) calls the builtin recover.
func recovers(fn *ssa.Function) bool {
	for _, b := range fn.Blocks {
		for _, in := range b.Instrs {
			if c, ok := in.(*ssa.Call); ok {
				if bi, ok := c.Call.Value.(*ssa.Builtin); ok && bi.Name() == "recover" {
					return true
				}
			}
		}
	}
	return false
}

func (ex *Exec) implicitPanic(st *State, site ssa.Instruction, msg string, cond *smt.Term) {
	if cond.IsFalse() {
		return
	}
	ex.panicOutcome(st, msg, site, smt.And(st.pc, cond))
	st.assume(smt.Not(cond))
}

// ---------- zero values ----------

func (ex *Exec) zero(t types.Type) Value {
	switch u := t.Underlying().(type) {
	case *types.Basic:
		if s, ok := sortOf(u); ok {
			switch s.K {
			case smt.KBool:
				return smt.False
			case smt.KFP:
				return smt.FConst(0)
			default:
				return smt.Const(s.W, 0)
			}
		}
		if u.Info()&types.IsString != 0 {
			return ConcreteStr("")
		}
		if u.Kind() == types.UnsafePointer || u.Kind() == types.UntypedNil || u.Kind() == types.Invalid {
			return Nil
		}
		if u.Kind() == types.Float32 {
			return smt.FConst(0)
		}
		panic(unsupported("zero value of basic type " + u.String()))
	case *types.Struct:
		f := make([]Value, u.NumFields())
		for i := range f {
			func() {
				defer func() {
					if r := recover(); r != nil {
						if uu, ok := r.(*Unsupported); ok {
							panic(unsupported(uu.Msg + " <- field " + u.Field(i).Name() + " of " + t.String()))
						}
						panic(r)
					}
				}()
				f[i] = ex.zero(u.Field(i).Type())
			}()
		}
		return &StructV{F: f}
	case *types.Array:
		n := int(u.Len())
		e := make([]Value, n)
		if n > 0 {
			z := ex.zero(u.Elem())
			for i := range e {
				e[i] = z
			}
		}
		return &ArrayV{E: e}
	case *types.Slice:
		return &SliceV{Obj: 0, Len: bv64(0)}
	case *types.Pointer, *types.Map, *types.Chan, *types.Signature, *types.Interface:
		return Nil
	case *types.Tuple:
		e := make([]Value, u.Len())
		for i := range e {
			e[i] = ex.zero(u.At(i).Type())
		}
		return &TupleV{E: e}
	}
	panic(unsupported("zero value of type " + t.String()))
}

// ---------- operand evaluation ----------

func (ex *Exec) val(fr *Frame, v ssa.Value) Value {
	switch x := v.(type) {
	case *ssa.Const:
		return ex.constVal(x)
	case *ssa.Global:
		return &PtrV{Obj: ex.globalID(x)}
	case *ssa.Function:
		return &FuncV{Fn: x}
	case *ssa.Builtin:
		panic(unsupported("builtin used as value: " + x.Name()))
	}
	if r, ok := fr.regs[v]; ok {
		return r
	}
	panic(unsupported(fmt.Sprintf("use of undefined SSA value %s (%T) in %s", v.Name(), v, fr.fn)))
}

func (ex *Exec) globalID(g *ssa.Global) int {
	if id, ok := ex.globals[g]; ok {
		return id
	}
	id := ex.nextObj
	ex.nextObj++
	ex.globals[g] = id
	ex.globalByID[id] = g
	return id
}

func (ex *Exec) constVal(c *ssa.Const) Value {
	t := c.Type()
	if c.Value == nil {
		return ex.zero(t)
	}
	if s, ok := sortOf(t); ok {
		switch s.K {
		case smt.KBool:
			return smt.BoolC(constant.BoolVal(c.Value))
		case smt.KFP:
			f, _ := constant.Float64Val(constant.ToFloat(c.Value))
			return smt.FConst(f)
		default:
			if isSigned(t) {
				return smt.ConstI(s.W, c.Int64())
			}
			return smt.Const(s.W, c.Uint64())
		}
	}
	if isString(t) {
		return ConcreteStr(constant.StringVal(c.Value))
	}
	if b, ok := t.Underlying().(*types.Basic); ok && b.Kind() == types.Float32 {
		f, _ := constant.Float64Val(constant.ToFloat(c.Value))
		return smt.FConst(float64(float32(f)))
	}
	panic(unsupported("constant of type " + t.String()))
}

// ---------- post-dominators ----------

// ipdoms returns for each block index its immediate post-dominator (nil = virtual exit / none).
func (ex *Exec) ipdoms(fn *ssa.Function) []*ssa.BasicBlock {
	if r, ok := ex.pdom[fn]; ok {
		return r
	}
	n := len(fn.Blocks)
	exit := n
	preds := make([][]int, n+1) // in reverse graph: preds[x] = successors of x in CFG (+exit)
	succsRev := make([][]int, n+1)
	for _, b := range fn.Blocks {
		for _, s := range b.Succs {
			preds[b.Index] = append(preds[b.Index], s.Index)
			succsRev[s.Index] = append(succsRev[s.Index], b.Index)
		}
		if len(b.Instrs) > 0 {
			if _, ok := b.Instrs[len(b.Instrs)-1].(*ssa.Return); ok {
				preds[b.Index] = append(preds[b.Index], exit)
				succsRev[exit] = append(succsRev[exit], b.Index)
			}
		}
	}
	// reverse post-order of the reverse graph from exit
	order := []int{}
	seen := make([]bool, n+1)
	var dfs func(int)
	dfs = func(x int) {
		seen[x] = true
		for _, y := range succsRev[x] {
			if !seen[y] {
				dfs(y)
			}
		}
		order = append(order, x)
	}
	dfs(exit)
	rpoNum := make([]int, n+1)
	for i := range rpoNum {
		rpoNum[i] = -1
	}
	for i, x := range order {
		rpoNum[x] = len(order) - 1 - i
	}
	idom := make([]int, n+1)
	for i := range idom {
		idom[i] = -1
	}
	idom[exit] = exit
	intersect := func(a, b int) int {
		for a != b {
			for rpoNum[a] > rpoNum[b] {
				a = idom[a]
			}
			for rpoNum[b] > rpoNum[a] {
				b = idom[b]
			}
		}
		return a
	}
	changed := true
	for changed {
		changed = false
		for i := len(order) - 1; i >= 0; i-- {
			x := order[i]
			if x == exit {
				continue
			}
			nw := -1
			for _, p := range preds[x] {
				if rpoNum[p] < 0 || idom[p] == -1 {
					continue
				}
				if nw == -1 {
					nw = p
				} else {
					nw = intersect(p, nw)
				}
			}
			if nw != -1 && idom[x] != nw {
				idom[x] = nw
				changed = true
			}
		}
	}
	res := make([]*ssa.BasicBlock, n)
	for i := 0; i < n; i++ {
		if idom[i] >= 0 && idom[i] != exit {
			res[i] = fn.Blocks[idom[i]]
		}
	}
	ex.pdom[fn] = res
	return res
}

// ---------- function calls ----------

func (ex *Exec) isUnderTest(fn *ssa.Function) bool {
	if fn.Pkg == nil {
		if o := fn.Origin(); o != nil && o.Pkg != nil {
			return strings.HasPrefix(o.Pkg.Pkg.Path(), ex.ModPrefix)
		}
		// synthetic wrappers (bound methods, thunks): decide by the wrapped object's package
		if fn.Object() != nil && fn.Object().Pkg() != nil {
			return strings.HasPrefix(fn.Object().Pkg().Path(), ex.ModPrefix)
		}
		return strings.Contains(fn.String(), ex.ModPrefix)
	}
	return strings.HasPrefix(fn.Pkg.Pkg.Path(), ex.ModPrefix)
}

func fnName(fn *ssa.Function) string {
	if o := fn.Origin(); o != nil {
		return o.String()
	}
	return fn.String()
}

// CallFn executes fn with args (receiver first) and returns its result (nil if none / dead).
func (ex *Exec) CallFn(st *State, site ssa.Instruction, fn *ssa.Function, args []Value, bind []Value, depth int) Value {
	if st.dead {
		return nil
	}
	name := fnName(fn)
	for fl := range ex.Flags {
		if stub, ok := ex.Stubs["flag:"+fl+":"+name]; ok {
			ex.StubsUsed["summary("+fl+") "+name]++
			return stub(ex, st, site, fn, args)
		}
	}
	if stub, ok := ex.Stubs[name]; ok {
		ex.StubsUsed[name]++
		return stub(ex, st, site, fn, args)
	}
	if stub := ex.prefixStub(fn, name); stub != nil {
		ex.StubsUsed[name]++
		return stub(ex, st, site, fn, args)
	}
	if fn.Synthetic == "package initializer" && !ex.isUnderTest(fn) {
		return nil
	}
	if fn.Pkg != nil && fn.Pkg.Pkg.Name() == "main" && strings.HasPrefix(fn.Name(), "init#") {
		ex.Notes = append(ex.Notes, "skipped "+name+" (command-line set-up of package main)")
		return nil
	}
	if fn.Blocks == nil {
		panic(unsupported("call of function without body and without stub: " + name))
	}
	if !ex.isUnderTest(fn) && !ex.Interp[name] && !isSyntheticWrapper(fn) {
		panic(unsupported("call of external function without stub: " + name))
	}
	if depth > 200 {
		panic(unsupported("call depth exceeded at " + name))
	}
	ex.Encoded[name] = true
	if ex.Trace && depth <= 3 {
		println("CALL", depth, name, smt.NumTerms)
	}
	fr := &Frame{fn: fn, regs: make(map[ssa.Value]Value, 64), visits: map[*ssa.BasicBlock]int{}, depth: depth + 1}
	if len(args) != len(fn.Params) {
		panic(unsupported(fmt.Sprintf("arity mismatch calling %s: %d args, %d params", name, len(args), len(fn.Params))))
	}
	for i, p := range fn.Params {
		fr.regs[p] = args[i]
	}
	for i, fv := range fn.FreeVars {
		fr.regs[fv] = bind[i]
	}
	ex.run(st, fr, fn.Blocks[0], nil, nil, false)
	for _, c := range ex.catchers {
		if c.fr.fn == fn && c.fr.depth == fr.depth {
			return ex.finishCatcher(st, fr, site)
		}
	}
	if st.dead {
		return nil
	}
	if !fr.returned {
		panic(unsupported("function ended without return: " + name))
	}
	return fr.ret
}

// finishCatcher resumes the parked panicking states of a recovering frame and merges them with its normal return.
func (ex *Exec) finishCatcher(st *State, fr *Frame, site ssa.Instruction) Value {
	var c *catcher
	for i := len(ex.catchers) - 1; i >= 0; i-- {
		if ex.catchers[i].fr.fn == fr.fn && ex.catchers[i].fr.depth == fr.depth {
			c = ex.catchers[i]
			ex.catchers = append(ex.catchers[:i], ex.catchers[i+1:]...)
			break
		}
	}
	var ret Value
	if !st.dead {
		if !fr.returned {
			panic(unsupported("function ended without return: " + fr.fn.String()))
		}
		ret = fr.ret
	}
	if c == nil {
		return ret
	}
	for _, cs := range c.caught {
		s := cs.st
		if s.pc.IsFalse() {
			continue
		}
		guard := s.pc
		f2 := &Frame{fn: fr.fn, regs: fr.regs, visits: map[*ssa.BasicBlock]int{}, depth: fr.depth, defers: cs.defers}
		ex.recoverVal = &IfaceV{T: nil, V: ex.newOpaque("panic value")}
		for len(f2.defers) > 0 && !s.dead {
			d := f2.defers[len(f2.defers)-1]
			f2.defers = f2.defers[:len(f2.defers)-1]
			ex.guarded(s, d.G, func(s *State) { ex.runDeferred(s, f2, site, d) })
		}
		if ex.recoverVal != nil {
			// no deferred call consumed the panic on this path: it propagates
			ex.recoverVal = nil
			ex.panicOutcome(s, "panic not recovered by the deferred function of "+fr.fn.String(), site, s.pc)
			continue
		}
		if s.dead {
			continue
		}
		ex.run(s, f2, fr.fn.Recover, nil, nil, false)
		if s.dead || !f2.returned {
			continue
		}
		r2 := f2.ret
		dst := &State{}
		mergeStates(dst, guard, s, st)
		*st = *dst
		switch {
		case ret == nil:
			ret = r2
		case r2 != nil:
			ret = mergeV(guard, r2, ret)
		}
	}
	return ret
}

func isSyntheticWrapper(fn *ssa.Function) bool {
	return fn.Synthetic != "" && (strings.HasPrefix(fn.Synthetic, "wrapper") || strings.HasPrefix(fn.Synthetic, "bound") || strings.HasPrefix(fn.Synthetic, "thunk") || strings.HasPrefix(fn.Synthetic, "instance") || strings.HasPrefix(fn.Synthetic, "instantiation"))
}

// withChoice distributes f over ChoiceV alternatives of v, forking and merging the state.
func (ex *Exec) withChoice(st *State, v Value, f func(st *State, v Value) Value) Value {
	ch, ok := v.(*ChoiceV)
	if !ok {
		return f(st, v)
	}
	ex.Forks++
	s1 := st.fork(ch.C)
	s2 := st.fork(smt.Not(ch.C))
	var r1, r2 Value
	if !s1.dead {
		r1 = ex.withChoice(s1, ch.A, f)
	}
	if !s2.dead {
		r2 = ex.withChoice(s2, ch.B, f)
	}
	mergeStates(st, ch.C, s1, s2)
	switch {
	case st.dead:
		return nil
	case s1.dead:
		return r2
	case s2.dead:
		return r1
	}
	if r1 == nil && r2 == nil {
		return nil
	}
	if r1 == nil || r2 == nil {
		panic(unsupported("choice alternatives disagree on having a result"))
	}
	return mergeV(ch.C, r1, r2)
}

// guarded runs f under condition g (state changes are kept only where g holds).
func (ex *Exec) guarded(st *State, g *smt.Term, f func(st *State)) {
	if g.IsTrue() {
		f(st)
		return
	}
	if g.IsFalse() {
		return
	}
	ex.Forks++
	s1 := st.fork(g)
	s2 := st.fork(smt.Not(g))
	if !s1.dead {
		f(s1)
	}
	mergeStates(st, g, s1, s2)
}

func (ex *Exec) call(st *State, fr *Frame, site ssa.Instruction, c *ssa.CallCommon) Value {
	args := make([]Value, 0, len(c.Args)+1)
	if c.IsInvoke() {
		recv := ex.val(fr, c.Value)
		for _, a := range c.Args {
			args = append(args, ex.val(fr, a))
		}
		return ex.invoke(st, site, recv, c.Method, args, fr.depth)
	}
	for _, a := range c.Args {
		args = append(args, ex.val(fr, a))
	}
	switch f := c.Value.(type) {
	case *ssa.Builtin:
		return ex.builtin(st, fr, site, f, c, args)
	case *ssa.Function:
		return ex.CallFn(st, site, f, args, nil, fr.depth)
	}
	fv := ex.val(fr, c.Value)
	return ex.applyFuncValue(st, site, fv, args, fr.depth)
}

func (ex *Exec) applyFuncValue(st *State, site ssa.Instruction, fv Value, args []Value, depth int) Value {
	return ex.withChoice(st, fv, func(st *State, v Value) Value {
		switch f := v.(type) {
		case *FuncV:
			return ex.CallFn(st, site, f.Fn, args, f.Bind, depth)
		case *NilV:
			ex.panicOutcome(st, "call of nil function", site, st.pc)
			st.kill()
			return nil
		case *Opaque:
			key := f.Tag + ".call"
			if stub, ok := ex.Stubs[key]; ok {
				ex.StubsUsed[key]++
				return stub(ex, st, site, nil, append([]Value{f}, args...))
			}
		}
		panic(unsupported("call of non-function value " + describe(v)))
	})
}

func (ex *Exec) invoke(st *State, site ssa.Instruction, recv Value, m *types.Func, args []Value, depth int) Value {
	return ex.withChoice(st, recv, func(st *State, v Value) Value {
		switch r := v.(type) {
		case *NilV:
			ex.panicOutcome(st, "nil interface method call "+m.Name(), site, st.pc)
			st.kill()
			return nil
		case *IfaceV:
			if op, ok := r.V.(*Opaque); ok && r.T == nil {
				key := op.Tag + "." + m.Name()
				if stub, ok := ex.Stubs[key]; ok {
					ex.StubsUsed[key]++
					return stub(ex, st, site, nil, append([]Value{op}, args...))
				}
				panic(unsupported("no stub for opaque method " + key))
			}
			ms := ex.Prog.MethodSets.MethodSet(r.T)
			sel := ms.Lookup(m.Pkg(), m.Name())
			if sel == nil {
				panic(unsupported(fmt.Sprintf("method %s not found on %v", m.Name(), r.T)))
			}
			fn := ex.Prog.MethodValue(sel)
			if fn == nil {
				panic(unsupported(fmt.Sprintf("no SSA function for method %s on %v", m.Name(), r.T)))
			}
			return ex.CallFn(st, site, fn, append([]Value{r.V}, args...), nil, depth)
		}
		panic(unsupported("invoke on " + describe(v)))
	})
}

// ---------- main loop ----------

func (ex *Exec) run(st *State, fr *Frame, b *ssa.BasicBlock, pred *ssa.BasicBlock, stop *ssa.BasicBlock, phisDone bool) {
	for {
		if st.dead || fr.returned {
			return
		}
		if !phisDone {
			ex.evalPhis(fr, b, pred)
		}
		startIdx := fr.startIdx
		fr.startIdx = 0
		if b == stop && startIdx == 0 {
			return
		}
		phisDone = false
		if startIdx == 0 {
			fr.visits[b]++
		}
		if fr.visits[b] > ex.MaxVisits {
			ex.outcome("unwind", "block visit limit", b.Instrs[0], st.pc)
			st.kill()
			return
		}
		var next *ssa.BasicBlock
		jumped := false
	instrLoop:
		for idx := startIdx; idx < len(b.Instrs); idx++ {
			instr := b.Instrs[idx]
			if st.dead {
				return
			}
			ex.Instrs++
			if ex.Instrs&1023 == 0 {
				checkResources()
			}
			switch in := instr.(type) {
			case *ssa.Phi:
				continue
			case *ssa.Range:
				ch, isChoice := ex.val(fr, in.X).(*ChoiceV)
				if ex.Trace {
					println("RANGE", describe(ex.val(fr, in.X)), smt.NumTerms)
				}
				if !isChoice {
					ex.step(st, fr, instr)
					continue
				}
				// range over a choice of maps: split the paths here (each alternative iterates a concrete map)
				// and merge at the post-dominator of this block
				ip := ex.ipdoms(fr.fn)[b.Index]
				// the split must cover the whole loop: merge at the post-dominator of the block holding Next
				if refs := in.Referrers(); refs != nil {
					for _, r := range *refs {
						if nx, ok := r.(*ssa.Next); ok && nx.Block() != nil {
							ip = ex.ipdoms(fr.fn)[nx.Block().Index]
						}
					}
				}
				ex.Forks++
				s1, f1 := st.fork(ch.C), fr.clone()
				s2, f2 := st.fork(smt.Not(ch.C)), fr.clone()
				f1.regs[in.X], f1.startIdx = ch.A, idx
				f2.regs[in.X], f2.startIdx = ch.B, idx
				if !s1.dead {
					ex.run(s1, f1, b, nil, ip, true)
				}
				if !s2.dead {
					ex.run(s2, f2, b, nil, ip, true)
				}
				mergeFrames(fr, ch.C, s1, s2, f1, f2)
				mergeStates(st, ch.C, s1, s2)
				if st.dead || fr.returned {
					return
				}
				if ip == nil {
					panic(unsupported("paths fell off region without return in " + fr.fn.String()))
				}
				if ip == stop {
					return
				}
				b, pred, phisDone = ip, nil, true
				jumped = true
				break instrLoop
			case *ssa.Jump:
				next = b.Succs[0]
			case *ssa.If:
				c, ok := ex.val(fr, in.Cond).(*smt.Term)
				if !ok {
					panic(unsupported("non-term branch condition"))
				}
				if c.IsTrue() {
					next = b.Succs[0]
					break
				}
				if c.IsFalse() {
					next = b.Succs[1]
					break
				}
				// symbolic fork
				key := symKey(b)
				depth := fr.visits[key] // nesting depth of unfinished symbolic decisions at this block
				fr.visits[key] = depth + 1
				if fr.visits[key] > ex.Unwind {
					ex.outcome("unwind", fmt.Sprintf("unwinding bound %d reached", ex.Unwind), in, st.pc)
					st.kill()
					return
				}
				ip := ex.ipdoms(fr.fn)[b.Index]
				ex.Forks++
				s1, f1 := st.fork(c), fr.clone()
				s2, f2 := st.fork(smt.Not(c)), fr.clone()
				if !s1.dead {
					ex.run(s1, f1, b.Succs[0], b, ip, false)
				}
				if !s2.dead {
					ex.run(s2, f2, b.Succs[1], b, ip, false)
				}
				mergeFrames(fr, c, s1, s2, f1, f2)
				mergeStates(st, c, s1, s2)
				fr.visits[key] = depth
				if st.dead || fr.returned {
					return
				}
				if ip == nil {
					panic(unsupported("paths fell off region without return in " + fr.fn.String()))
				}
				if ip == stop {
					return
				}
				b, pred, phisDone = ip, nil, true
				jumped = true
				break instrLoop
			case *ssa.Return:
				switch len(in.Results) {
				case 0:
					fr.ret = nil
				case 1:
					fr.ret = ex.val(fr, in.Results[0])
				default:
					e := make([]Value, len(in.Results))
					for i, r := range in.Results {
						e[i] = ex.val(fr, r)
					}
					fr.ret = &TupleV{E: e}
				}
				fr.returned = true
				return
			case *ssa.Panic:
				msg := "explicit panic"
				if iv, ok := ex.val(fr, in.X).(*IfaceV); ok {
					if s, ok := iv.V.(*StrV); ok {
						if cs, ok := s.Concrete(); ok {
							msg = "panic: " + cs
						}
					} else {
						msg = "panic: " + describe(iv.V)
					}
				}
				ex.panicOutcome(st, msg, in, st.pc)
				st.kill()
				return
			default:
				n0 := smt.NumTerms
				ex.step(st, fr, instr)
				if ex.Trace && smt.NumTerms-n0 > 5000 {
					println("BIG", fr.fn.Name(), instr.String(), smt.NumTerms-n0)
				}
			}
		}
		if jumped {
			continue
		}
		if next == nil {
			if st.dead {
				return
			}
			panic(unsupported("block without terminator in " + fr.fn.String()))
		}
		pred, b = b, next
	}
}

type symKeyT struct{ b *ssa.BasicBlock }

var symKeys = map[*ssa.BasicBlock]*ssa.BasicBlock{}

// symKey returns a distinct pseudo-block used to count symbolic decisions at b.
func symKey(b *ssa.BasicBlock) *ssa.BasicBlock {
	if k, ok := symKeys[b]; ok {
		return k
	}
	k := &ssa.BasicBlock{}
	symKeys[b] = k
	return k
}

func (ex *Exec) evalPhis(fr *Frame, b *ssa.BasicBlock, pred *ssa.BasicBlock) {
	if pred == nil {
		return
	}
	idx := -1
	for i, p := range b.Preds {
		if p == pred {
			idx = i
			break
		}
	}
	if idx < 0 {
		return
	}
	var phis []*ssa.Phi
	var vals []Value
	for _, instr := range b.Instrs {
		phi, ok := instr.(*ssa.Phi)
		if !ok {
			break
		}
		phis = append(phis, phi)
		vals = append(vals, ex.val(fr, phi.Edges[idx]))
	}
	for i, phi := range phis {
		fr.regs[phi] = vals[i]
	}
}

func (ex *Exec) step(st *State, fr *Frame, instr ssa.Instruction) {
	switch in := instr.(type) {
	case *ssa.DebugRef:
	case *ssa.Alloc:
		id := ex.newObj(st, ex.zero(in.Type().(*types.Pointer).Elem()))
		fr.regs[in] = &PtrV{Obj: id}
	case *ssa.Store:
		ex.store(st, in, ex.val(fr, in.Addr), ex.val(fr, in.Val))
	case *ssa.UnOp:
		fr.regs[in] = ex.unop(st, fr, in)
	case *ssa.BinOp:
		fr.regs[in] = ex.binop(st, in, in.Op, ex.val(fr, in.X), ex.val(fr, in.Y), in.X.Type(), in.Y.Type())
	case *ssa.Call:
		r := ex.call(st, fr, in, &in.Call)
		if st.dead {
			return
		}
		if r != nil {
			fr.regs[in] = r
		} else if in.Type() != nil {
			if tup, ok := in.Type().(*types.Tuple); !ok || tup.Len() > 0 {
				panic(unsupported("call produced no value but one is expected: " + in.String()))
			}
		}
	case *ssa.ChangeType:
		fr.regs[in] = ex.val(fr, in.X)
	case *ssa.ChangeInterface:
		fr.regs[in] = ex.val(fr, in.X)
	case *ssa.Convert:
		fr.regs[in] = ex.convert(st, in, ex.val(fr, in.X), in.X.Type(), in.Type())
	case *ssa.MakeInterface:
		fr.regs[in] = &IfaceV{T: in.X.Type(), V: ex.val(fr, in.X)}
	case *ssa.TypeAssert:
		fr.regs[in] = ex.typeAssert(st, in, ex.val(fr, in.X))
	case *ssa.Extract:
		t := ex.val(fr, in.Tuple)
		fr.regs[in] = ex.withChoice(st, t, func(st *State, v Value) Value { return v.(*TupleV).E[in.Index] })
	case *ssa.Field:
		x := ex.val(fr, in.X)
		fr.regs[in] = x.(*StructV).F[in.Field]
	case *ssa.FieldAddr:
		x := ex.val(fr, in.X)
		fr.regs[in] = ex.withChoice(st, x, func(st *State, v Value) Value {
			switch p := v.(type) {
			case *PtrV:
				path := append(append([]PathEl(nil), p.Path...), PathEl{Field: in.Field})
				return &PtrV{Obj: p.Obj, Path: path}
			case *NilV:
				ex.panicOutcome(st, "nil pointer dereference (field address)", in, st.pc)
				st.kill()
				return nil
			}
			panic(unsupported("FieldAddr on " + describe(v)))
		})
	case *ssa.Index:
		x := ex.val(fr, in.X)
		idx := ex.toIdx(ex.val(fr, in.Index), in.Index.Type())
		switch a := x.(type) {
		case *ArrayV:
			fr.regs[in] = ex.indexArray(st, in, a.E, idx, 0, bv64(int64(len(a.E))))
		case *StrV:
			fr.regs[in] = ex.indexStr(st, in, a, idx)
		default:
			panic(unsupported("Index on " + describe(x)))
		}
	case *ssa.IndexAddr:
		x := ex.val(fr, in.X)
		idx := ex.toIdx(ex.val(fr, in.Index), in.Index.Type())
		fr.regs[in] = ex.withChoice(st, x, func(st *State, v Value) Value {
			switch a := v.(type) {
			case *SliceV:
				ex.implicitPanic(st, in, "index out of range", smt.Uge(idx, a.Len))
				if st.dead {
					return nil
				}
				if a.Obj == 0 {
					st.kill()
					return nil
				}
				return &PtrV{Obj: a.Obj, Path: []PathEl{{Idx: smt.Add(idx, bv64(int64(a.Off)))}}}
			case *PtrV: // pointer to array
				arr := ex.load(st, in, a).(*ArrayV)
				ex.implicitPanic(st, in, "index out of range", smt.Uge(idx, bv64(int64(len(arr.E)))))
				if st.dead {
					return nil
				}
				path := append(append([]PathEl(nil), a.Path...), PathEl{Idx: idx})
				return &PtrV{Obj: a.Obj, Path: path}
			case *NilV:
				ex.panicOutcome(st, "nil pointer dereference (index address)", in, st.pc)
				st.kill()
				return nil
			}
			panic(unsupported("IndexAddr on " + describe(v)))
		})
	case *ssa.Lookup:
		x := ex.val(fr, in.X)
		k := ex.val(fr, in.Index)
		if s, ok := x.(*StrV); ok {
			fr.regs[in] = ex.indexStr(st, in, s, ex.toIdx(k, in.Index.Type()))
			return
		}
		mt := in.X.Type().Underlying().(*types.Map)
		fr.regs[in] = ex.withChoice(st, x, func(st *State, v Value) Value {
			if mv, isMap := v.(*MapV); isMap {
				ex.checkProtected(st, in, mv.Obj, "map read")
			}
			val, ok := ex.mapLookup(st, v, k, mt)
			if in.CommaOk {
				return &TupleV{E: []Value{val, ok}}
			}
			return val
		})
	case *ssa.MapUpdate:
		x := ex.val(fr, in.Map)
		k := ex.val(fr, in.Key)
		v := ex.val(fr, in.Value)
		ex.withChoice(st, x, func(st *State, m Value) Value {
			if mv, isMap := m.(*MapV); isMap {
				ex.checkProtected(st, in, mv.Obj, "map write")
			}
			ex.mapUpdate(st, in, m, k, v)
			return nil
		})
	case *ssa.MakeMap:
		mt := in.Type().Underlying().(*types.Map)
		id := ex.newObj(st, ex.newMapC(mt))
		fr.regs[in] = &MapV{Obj: id}
	case *ssa.MakeChan:
		sz := ex.val(fr, in.Size).(*smt.Term)
		if !sz.IsConst() {
			panic(unsupported("symbolic channel capacity"))
		}
		id := ex.newObj(st, ex.newChanC(int(sz.V), in.Type().Underlying().(*types.Chan).Elem()))
		fr.regs[in] = &ChanV{Obj: id}
	case *ssa.MakeSlice:
		l := ex.val(fr, in.Len).(*smt.Term)
		c := ex.val(fr, in.Cap).(*smt.Term)
		if l.IsConst() && !c.IsConst() {
			// a symbolic capacity only matters for aliasing through spare capacity, which a freshly made slice
			// does not have: the slice is given exactly its length and grows by re-allocation
			ex.Notes = append(ex.Notes, "make([]T, n, cap) with symbolic cap: capacity abstracted to n")
			c = l
		}
		if !l.IsConst() || !c.IsConst() {
			panic(unsupported("make([]T) with symbolic size"))
		}
		n, cp := int(l.V), int(c.V)
		if cp > 1<<20 {
			panic(unsupported("make([]T) too large"))
		}
		et := in.Type().Underlying().(*types.Slice).Elem()
		fr.regs[in] = ex.makeSlice(st, et, n, cp)
	case *ssa.MakeClosure:
		b := make([]Value, len(in.Bindings))
		for i, x := range in.Bindings {
			b[i] = ex.val(fr, x)
		}
		fr.regs[in] = &FuncV{Fn: in.Fn.(*ssa.Function), Bind: b}
	case *ssa.Slice:
		fr.regs[in] = ex.sliceOp(st, fr, in)
	case *ssa.Range:
		fr.regs[in] = ex.rangeStart(st, in, ex.val(fr, in.X))
	case *ssa.Next:
		fr.regs[in] = ex.rangeNext(st, in, ex.val(fr, in.Iter))
		if ex.Trace {
			println("NEXT", fr.fn.Name(), smt.NumTerms, len(st.heap))
		}
	case *ssa.Send:
		ch := ex.val(fr, in.Chan)
		v := ex.val(fr, in.X)
		ex.withChoice(st, ch, func(st *State, c Value) Value {
			ex.chanSend(st, in, c, v)
			return nil
		})
	case *ssa.Defer:
		d := &deferEntry{G: smt.True, Call: &in.Call}
		if in.Call.IsInvoke() {
			d.Fn = ex.val(fr, in.Call.Value)
		} else if _, isB := in.Call.Value.(*ssa.Builtin); !isB {
			d.Fn = ex.val(fr, in.Call.Value)
		}
		for _, a := range in.Call.Args {
			d.Args = append(d.Args, ex.val(fr, a))
		}
		fr.defers = append(fr.defers, d)
		if fv, ok := d.Fn.(*FuncV); ok && fv.Fn != nil && recovers(fv.Fn) && !fr.catching && fr.fn.Recover != nil && !ex.inE2 {
			fr.catching = true
			ex.catchers = append(ex.catchers, &catcher{fr: fr, defers: append([]*deferEntry(nil), fr.defers...)})
		}
	case *ssa.RunDefers:
		for len(fr.defers) > 0 {
			d := fr.defers[len(fr.defers)-1]
			fr.defers = fr.defers[:len(fr.defers)-1]
			ex.guarded(st, d.G, func(st *State) { ex.runDeferred(st, fr, in, d) })
			if st.dead {
				return
			}
		}
	case *ssa.Go:
		name := "?"
		if f, ok := in.Call.Value.(*ssa.Function); ok {
			name = f.String()
		} else if mc, ok := in.Call.Value.(*ssa.MakeClosure); ok {
			name = mc.Fn.String()
		} else if in.Call.IsInvoke() {
			name = in.Call.Method.FullName()
		}
		ex.Spawned = append(ex.Spawned, name)
		if ex.Flags["concurrent"] {
			ex.registerGo(st, fr, in)
		}
	case *ssa.Select:
		fr.regs[in] = ex.selectSeq(st, fr, in)
	default:
		panic(unsupported(fmt.Sprintf("instruction %T: %s", instr, instr)))
	}
}

func (ex *Exec) runDeferred(st *State, fr *Frame, site ssa.Instruction, d *deferEntry) {
	c := d.Call
	if c.IsInvoke() {
		ex.invoke(st, site, d.Fn, c.Method, d.Args, fr.depth)
		return
	}
	switch f := c.Value.(type) {
	case *ssa.Builtin:
		ex.builtin(st, fr, site, f, c, d.Args)
		return
	case *ssa.Function:
		ex.CallFn(st, site, f, d.Args, nil, fr.depth)
		return
	}
	ex.applyFuncValue(st, site, d.Fn, d.Args, fr.depth)
}

func (ex *Exec) toIdx(v Value, t types.Type) *smt.Term {
	x := v.(*smt.Term)
	if x.S.W == 64 {
		return x
	}
	if isSigned(t) {
		return smt.SExt(x, 64)
	}
	return smt.ZExt(x, 64)
}

// ---------- memory ----------

func (ex *Exec) load(st *State, site ssa.Instruction, p *PtrV) Value {
	ex.checkProtected(st, site, p.Obj, "read")
	v := ex.get(st, p.Obj)
	return ex.getPath(st, site, v, p.Path)
}

func (ex *Exec) getPath(st *State, site ssa.Instruction, v Value, path []PathEl) Value {
	for i, el := range path {
		if el.Idx == nil {
			sv, ok := v.(*StructV)
			if !ok {
				panic(unsupported("field path on " + describe(v)))
			}
			v = sv.F[el.Field]
			continue
		}
		av, ok := v.(*ArrayV)
		if !ok {
			panic(unsupported("index path on " + describe(v)))
		}
		if el.Idx.IsConst() {
			k := int(el.Idx.V)
			if k < 0 || k >= len(av.E) {
				ex.panicOutcome(st, "index out of range (load)", site, st.pc)
				st.kill()
				return nil
			}
			v = av.E[k]
			continue
		}
		rest := path[i+1:]
		n := len(av.E)
		if n == 0 {
			st.kill()
			return nil
		}
		var r Value
		for k := n - 1; k >= 0; k-- {
			e := ex.getPath(st, site, av.E[k], rest)
			if r == nil {
				r = e
			} else {
				r = mergeV(smt.Eq(el.Idx, bv64(int64(k))), e, r)
			}
		}
		return r
	}
	return v
}

func (ex *Exec) setPath(v Value, path []PathEl, nv Value) Value {
	if len(path) == 0 {
		return nv
	}
	el := path[0]
	if el.Idx == nil {
		sv := v.(*StructV)
		f := append([]Value(nil), sv.F...)
		f[el.Field] = ex.setPath(sv.F[el.Field], path[1:], nv)
		return &StructV{F: f}
	}
	av := v.(*ArrayV)
	e := append([]Value(nil), av.E...)
	if el.Idx.IsConst() {
		k := int(el.Idx.V)
		if k >= 0 && k < len(e) {
			e[k] = ex.setPath(e[k], path[1:], nv)
		}
		return &ArrayV{E: e}
	}
	for k := range e {
		e[k] = mergeV(smt.Eq(el.Idx, bv64(int64(k))), ex.setPath(e[k], path[1:], nv), e[k])
	}
	return &ArrayV{E: e}
}

func (ex *Exec) store(st *State, site ssa.Instruction, addr Value, v Value) {
	ex.withChoice(st, addr, func(st *State, a Value) Value {
		switch p := a.(type) {
		case *PtrV:
			ex.checkProtected(st, site, p.Obj, "write")
			old := ex.get(st, p.Obj)
			st.heap[p.Obj] = ex.setPath(old, p.Path, v)
		case *NilV:
			ex.panicOutcome(st, "nil pointer dereference (store)", site, st.pc)
			st.kill()
		default:
			panic(unsupported("store through " + describe(a)))
		}
		return nil
	})
}

func (ex *Exec) unop(st *State, fr *Frame, in *ssa.UnOp) Value {
	x := ex.val(fr, in.X)
	switch in.Op {
	case token.MUL:
		return ex.withChoice(st, x, func(st *State, a Value) Value {
			switch p := a.(type) {
			case *PtrV:
				return ex.load(st, in, p)
			case *NilV:
				ex.panicOutcome(st, "nil pointer dereference (load)", in, st.pc)
				st.kill()
				return nil
			}
			panic(unsupported("load through " + describe(a)))
		})
	case token.NOT:
		return smt.Not(x.(*smt.Term))
	case token.SUB:
		t := x.(*smt.Term)
		if t.S.K == smt.KFP {
			return smt.FNeg(t)
		}
		return smt.Neg(t)
	case token.XOR:
		return smt.BNot(x.(*smt.Term))
	case token.ARROW:
		return ex.withChoice(st, x, func(st *State, c Value) Value {
			return ex.chanRecv(st, in, c, in.CommaOk, in.Type())
		})
	}
	panic(unsupported("unary op " + in.Op.String()))
}

func (ex *Exec) binop(st *State, site ssa.Instruction, op token.Token, x, y Value, xt, yt types.Type) Value {
	switch op {
	case token.EQL:
		return ex.eqV(x, y)
	case token.NEQ:
		return smt.Not(ex.eqV(x, y))
	}
	if xs, ok := x.(*StrV); ok {
		ys := y.(*StrV)
		switch op {
		case token.ADD:
			return ex.strConcat(xs, ys)
		case token.LSS, token.LEQ, token.GTR, token.GEQ:
			a, oka := xs.Concrete()
			b, okb := ys.Concrete()
			if oka && okb {
				switch op {
				case token.LSS:
					return smt.BoolC(a < b)
				case token.LEQ:
					return smt.BoolC(a <= b)
				case token.GTR:
					return smt.BoolC(a > b)
				default:
					return smt.BoolC(a >= b)
				}
			}
		}
		panic(unsupported("string binary op " + op.String()))
	}
	a, ok1 := x.(*smt.Term)
	b, ok2 := y.(*smt.Term)
	if !ok1 || !ok2 {
		panic(unsupported(fmt.Sprintf("binop %s on %s, %s", op, describe(x), describe(y))))
	}
	if a.S.K == smt.KFP {
		switch op {
		case token.ADD:
			return smt.FAdd(a, b)
		case token.SUB:
			return smt.FSub(a, b)
		case token.MUL:
			return smt.FMul(a, b)
		case token.QUO:
			return smt.FDiv(a, b)
		case token.LSS:
			return smt.FLt(a, b)
		case token.LEQ:
			return smt.FLe(a, b)
		case token.GTR:
			return smt.FLt(b, a)
		case token.GEQ:
			return smt.FLe(b, a)
		}
		panic(unsupported("float op " + op.String()))
	}
	if a.S.K == smt.KBool {
		switch op {
		case token.AND, token.LAND:
			return smt.And(a, b)
		case token.OR, token.LOR:
			return smt.Or(a, b)
		}
		panic(unsupported("bool op " + op.String()))
	}
	signed := isSigned(xt)
	switch op {
	case token.ADD:
		return smt.Add(a, b)
	case token.SUB:
		return smt.Sub(a, b)
	case token.MUL:
		return smt.Mul(a, b)
	case token.QUO, token.REM:
		ex.implicitPanic(st, site, "integer divide by zero", smt.Eq(b, smt.Const(b.S.W, 0)))
		if st.dead {
			return smt.Const(a.S.W, 0)
		}
		if signed {
			if op == token.QUO {
				return smt.SDiv(a, b)
			}
			return smt.SRem(a, b)
		}
		if op == token.QUO {
			return smt.UDiv(a, b)
		}
		return smt.URem(a, b)
	case token.AND:
		return smt.BAnd(a, b)
	case token.OR:
		return smt.BOr(a, b)
	case token.XOR:
		return smt.BXor(a, b)
	case token.AND_NOT:
		return smt.BAnd(a, smt.BNot(b))
	case token.SHL, token.SHR:
		w := a.S.W
		cnt := b
		if isSigned(yt) {
			ex.implicitPanic(st, site, "negative shift amount", smt.Slt(b, smt.Const(b.S.W, 0)))
		}
		// bring count to width w, saturating
		if cnt.S.W > w {
			big := smt.Uge(cnt, smt.Const(cnt.S.W, uint64(w)))
			cnt = smt.Ite(big, smt.Const(w, uint64(w)), smt.Extract(cnt, w-1, 0))
		} else if cnt.S.W < w {
			cnt = smt.ZExt(cnt, w)
		}
		if op == token.SHL {
			return smt.Shl(a, cnt)
		}
		if signed {
			return smt.AShr(a, cnt)
		}
		return smt.LShr(a, cnt)
	case token.LSS:
		if signed {
			return smt.Slt(a, b)
		}
		return smt.Ult(a, b)
	case token.LEQ:
		if signed {
			return smt.Sle(a, b)
		}
		return smt.Ule(a, b)
	case token.GTR:
		if signed {
			return smt.Sgt(a, b)
		}
		return smt.Ugt(a, b)
	case token.GEQ:
		if signed {
			return smt.Sge(a, b)
		}
		return smt.Uge(a, b)
	}
	panic(unsupported("binary op " + op.String()))
}

func sameType(a, b types.Type) bool {
	if a == nil || b == nil {
		return a == b
	}
	return types.Identical(a, b)
}

func (ex *Exec) eqV(x, y Value) *smt.Term {
	if x == y {
		if t, ok := x.(*smt.Term); ok && t.S.K == smt.KFP {
			return smt.FEq(t, t)
		}
		return smt.True
	}
	if c, ok := x.(*ChoiceV); ok {
		key := [2]interface{}{c, y}
		if r, ok := ex.eqMemo[key]; ok {
			return r
		}
		r := smt.Ite(c.C, ex.eqV(c.A, y), ex.eqV(c.B, y))
		if ex.eqMemo == nil {
			ex.eqMemo = map[[2]interface{}]*smt.Term{}
		}
		ex.eqMemo[key] = r
		return r
	}
	if c, ok := y.(*ChoiceV); ok {
		key := [2]interface{}{x, c}
		if r, ok := ex.eqMemo[key]; ok {
			return r
		}
		r := smt.Ite(c.C, ex.eqV(x, c.A), ex.eqV(x, c.B))
		if ex.eqMemo == nil {
			ex.eqMemo = map[[2]interface{}]*smt.Term{}
		}
		ex.eqMemo[key] = r
		return r
	}
	switch a := x.(type) {
	case *smt.Term:
		b := y.(*smt.Term)
		if a.S.K == smt.KFP {
			return smt.FEq(a, b)
		}
		return smt.Eq(a, b)
	case *StrV:
		return strEq(a, y.(*StrV))
	case *StructV:
		b := y.(*StructV)
		r := smt.True
		for i := range a.F {
			r = smt.And(r, ex.eqV(a.F[i], b.F[i]))
		}
		return r
	case *ArrayV:
		b := y.(*ArrayV)
		r := smt.True
		for i := range a.E {
			r = smt.And(r, ex.eqV(a.E[i], b.E[i]))
		}
		return r
	case *NilV:
		switch b := y.(type) {
		case *NilV:
			return smt.True
		case *SliceV:
			return smt.BoolC(b.Obj == 0)
		}
		return smt.False
	case *PtrV:
		b, ok := y.(*PtrV)
		if !ok {
			return smt.False
		}
		if a.Obj != b.Obj || len(a.Path) != len(b.Path) {
			return smt.False
		}
		r := smt.True
		for i := range a.Path {
			if (a.Path[i].Idx == nil) != (b.Path[i].Idx == nil) {
				return smt.False
			}
			if a.Path[i].Idx == nil {
				if a.Path[i].Field != b.Path[i].Field {
					return smt.False
				}
			} else {
				r = smt.And(r, smt.Eq(a.Path[i].Idx, b.Path[i].Idx))
			}
		}
		return r
	case *SliceV:
		if _, ok := y.(*NilV); ok {
			return smt.BoolC(a.Obj == 0)
		}
	case *MapV:
		if b, ok := y.(*MapV); ok {
			return smt.BoolC(a.Obj == b.Obj)
		}
		return smt.False
	case *ChanV:
		if b, ok := y.(*ChanV); ok {
			return smt.BoolC(a.Obj == b.Obj)
		}
		return smt.False
	case *FuncV:
		return smt.False // only comparable with nil
	case *IfaceV:
		b, ok := y.(*IfaceV)
		if !ok {
			return smt.False
		}
		if !sameType(a.T, b.T) {
			return smt.False
		}
		return ex.eqV(a.V, b.V)
	case *Opaque:
		if b, ok := y.(*Opaque); ok {
			return smt.BoolC(a.ID == b.ID)
		}
		return smt.False
	}
	panic(unsupported(fmt.Sprintf("equality of %s and %s", describe(x), describe(y))))
}

func (ex *Exec) convert(st *State, site ssa.Instruction, x Value, from, to types.Type) Value {
	if ts, ok := sortOf(to); ok {
		if t, ok := x.(*smt.Term); ok {
			fs := t.S
			switch {
			case fs.K == smt.KBV && ts.K == smt.KBV:
				if ts.W <= fs.W {
					return smt.Extract(t, ts.W-1, 0)
				}
				if isSigned(from) {
					return smt.SExt(t, ts.W)
				}
				return smt.ZExt(t, ts.W)
			case fs.K == smt.KBV && ts.K == smt.KFP:
				if isSigned(from) {
					return smt.FFromSBV(t)
				}
				return smt.FFromUBV(t)
			case fs.K == smt.KFP && ts.K == smt.KBV:
				if !isSigned(to) && ts.W == 64 {
					panic(unsupported("float64 -> uint64 conversion"))
				}
				return smt.FToInt(t, ts.W)
			case fs.K == smt.KFP && ts.K == smt.KFP:
				return t
			}
		}
	}
	if isString(to) {
		switch v := x.(type) {
		case *StrV:
			return v
		case *SliceV: // []byte -> string
			return ex.bytesToStr(st, site, v)
		case *smt.Term: // rune -> string
			if v.IsConst() {
				return ConcreteStr(string(rune(v.SInt())))
			}
		}
	}
	if sl, ok := to.Underlying().(*types.Slice); ok {
		if s, ok := x.(*StrV); ok {
			if b, ok := sl.Elem().Underlying().(*types.Basic); ok && b.Kind() == types.Uint8 {
				return ex.strToBytes(st, s)
			}
		}
		if s, ok := x.(*SliceV); ok {
			return s
		}
	}
	if b, ok := to.Underlying().(*types.Basic); ok && b.Kind() == types.Float32 {
		panic(unsupported("float32 conversion"))
	}
	if _, ok := to.Underlying().(*types.Pointer); ok {
		return x // unsafe.Pointer round trips
	}
	if b, ok := to.Underlying().(*types.Basic); ok && b.Kind() == types.UnsafePointer {
		return x
	}
	panic(unsupported(fmt.Sprintf("conversion %v -> %v of %s", from, to, describe(x))))
}

func (ex *Exec) typeAssert(st *State, in *ssa.TypeAssert, x Value) Value {
	return ex.withChoice(st, x, func(st *State, v Value) Value {
		fail := func() Value {
			if in.CommaOk {
				return &TupleV{E: []Value{ex.zero(in.AssertedType), smt.False}}
			}
			ex.panicOutcome(st, "failed type assertion", in, st.pc)
			st.kill()
			return nil
		}
		iv, ok := v.(*IfaceV)
		if !ok {
			return fail()
		}
		var res Value
		if it, ok := in.AssertedType.Underlying().(*types.Interface); ok {
			if iv.T == nil || !types.Implements(iv.T, it) {
				if iv.T != nil {
					return fail()
				}
			}
			res = iv
		} else {
			if iv.T == nil || !types.Identical(iv.T, in.AssertedType) {
				return fail()
			}
			res = iv.V
		}
		if in.CommaOk {
			return &TupleV{E: []Value{res, smt.True}}
		}
		return res
	})
}

var _ = math.Abs

// newChanC: guarded-log channels in sequential mode, positional ring buffers in concurrent runs.
func (ex *Exec) newChanC(capacity int, et types.Type) *ChanC {
	if ex.Flags["concurrent"] && capacity <= 16 {
		n := capacity
		if n == 0 {
			n = 1
		}
		sl := make([]Value, n)
		z := ex.zero(et)
		for i := range sl {
			sl[i] = z
		}
		return &ChanC{Ring: true, Slots: sl, Len: bv64(0), Closed: smt.False, Cap: capacity}
	}
	return &ChanC{Closed: smt.False, Cap: capacity}
}

// selectSeq: select in sequential mode. Receive cases are taken in source order among the ready ones (a fired
// timer, a closed context, a non-empty channel); `default` if none is ready; a blocking select with no ready case
// blocks forever (reported, path ends). Send cases are not supported sequentially.
func (ex *Exec) selectSeq(st *State, fr *Frame, in *ssa.Select) Value {
	n := len(in.States)
	zeroVals := func() []Value {
		var v []Value
		for _, s := range in.States {
			if s.Dir == types.RecvOnly {
				v = append(v, ex.zero(s.Chan.Type().Underlying().(*types.Chan).Elem()))
			}
		}
		return v
	}
	mk := func(idx int, ok *smt.Term, vals []Value) Value {
		return &TupleV{E: append([]Value{bv64(int64(idx)), ok}, vals...)}
	}
	var result Value
	taken := smt.False
	// evaluate from the last case to the first so that earlier ready cases win in the merged value
	type alt struct {
		cond *smt.Term
		st   *State
		val  Value
	}
	var alts []alt
	notEarlier := smt.True
	for i := 0; i < n; i++ {
		s := in.States[i]
		if s.Dir != types.RecvOnly {
			panic(unsupported("select with a send case in sequential mode"))
		}
		ch := ex.val(fr, s.Chan)
		ready := ex.chanReady(st, ch, false)
		cond := smt.And(notEarlier, ready)
		notEarlier = smt.And(notEarlier, smt.Not(ready))
		if cond.IsFalse() {
			continue
		}
		si := st.fork(cond)
		if si.dead {
			continue
		}
		et := s.Chan.Type().Underlying().(*types.Chan).Elem()
		rt := types.NewTuple(types.NewVar(token.NoPos, nil, "", et), types.NewVar(token.NoPos, nil, "", types.Typ[types.Bool]))
		old := ex.inE2
		ex.inE2 = true // the case is ready: no blocked-receive outcome
		r := ex.withChoice(si, ch, func(st *State, cv Value) Value { return ex.chanRecv(st, in, cv, true, rt) })
		ex.inE2 = old
		if si.dead {
			continue
		}
		t := r.(*TupleV)
		vals := zeroVals()
		k := 0
		for j, s2 := range in.States {
			if s2.Dir == types.RecvOnly {
				if j == i {
					vals[k] = t.E[0]
				}
				k++
			}
		}
		alts = append(alts, alt{cond, si, mk(i, t.E[1].(*smt.Term), vals)})
		taken = smt.Or(taken, cond)
	}
	// none ready
	if !in.Blocking {
		cond := notEarlier
		if !cond.IsFalse() {
			sd := st.fork(cond)
			if !sd.dead {
				alts = append(alts, alt{cond, sd, mk(-1, smt.False, zeroVals())})
			}
		}
	} else if !notEarlier.IsFalse() {
		ex.outcome("blocked", "select with no ready case (sequential mode)", in, smt.And(st.pc, notEarlier))
	}
	if len(alts) == 0 {
		st.kill()
		return nil
	}
	acc := alts[len(alts)-1].st
	result = alts[len(alts)-1].val
	for i := len(alts) - 2; i >= 0; i-- {
		dst := &State{}
		mergeStates(dst, alts[i].cond, alts[i].st, acc)
		acc = dst
		result = mergeV(alts[i].cond, alts[i].val, result)
	}
	*st = *acc
	return result
}

type decodedReg struct {
	val  Value
	kind *smt.Term // 0 decodes, 1 syntax error (*toml.DecodeError), 2 strict-mode error
}
