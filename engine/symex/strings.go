package symex

import (
	"fmt"
	"path/filepath"
	"strconv"
	"strings"

	"golang.org/x/tools/go/ssa"
	"verif/engine/smt"
)

func mapBytes(s *StrV, f func(b *smt.Term) *smt.Term) *StrV {
	b := make([]*smt.Term, len(s.B))
	for i := range b {
		b[i] = f(s.B[i])
	}
	return &StrV{Len: s.Len, B: b}
}

func inRange(b *smt.Term, lo, hi byte) *smt.Term {
	return smt.And(smt.Uge(b, smt.Const(8, uint64(lo))), smt.Ule(b, smt.Const(8, uint64(hi))))
}

// asciiOnly is the obligation under which the byte-wise ToLower/ToUpper models are exact.
func asciiOnly(s *StrV) *smt.Term {
	r := smt.True
	for i, b := range s.B {
		r = smt.And(r, smt.Implies(smt.Ult(bv64(int64(i)), s.Len), smt.Ult(b, smt.Const(8, 0x80))))
	}
	return r
}

func hasSuffix(s, suf *StrV) *smt.Term {
	n, ok := suf.Concrete()
	if !ok {
		panic(unsupported("HasSuffix with symbolic suffix"))
	}
	k := len(n)
	if cs, ok := s.Concrete(); ok {
		return smt.BoolC(strings.HasSuffix(cs, n))
	}
	// for each possible length L >= k: bytes L-k..L-1 equal suffix
	r := smt.False
	for L := k; L <= len(s.B); L++ {
		c := smt.Eq(s.Len, bv64(int64(L)))
		for j := 0; j < k; j++ {
			c = smt.And(c, smt.Eq(s.B[L-k+j], smt.Const(8, uint64(n[j]))))
		}
		r = smt.Or(r, c)
	}
	return r
}

func hasPrefix(s, pre *StrV) *smt.Term {
	n, ok := pre.Concrete()
	if !ok {
		panic(unsupported("HasPrefix with symbolic prefix"))
	}
	k := len(n)
	if k > len(s.B) {
		return smt.False
	}
	r := smt.Uge(s.Len, bv64(int64(k)))
	for j := 0; j < k; j++ {
		r = smt.And(r, smt.Eq(s.B[j], smt.Const(8, uint64(n[j]))))
	}
	return r
}

func registerStringStubs(ex *Exec) {
	S := ex.Stubs
	S["strings.ToLower"] = func(ex *Exec, st *State, site ssa.Instruction, fn *ssa.Function, args []Value) Value {
		s := args[0].(*StrV)
		if cs, ok := s.Concrete(); ok {
			return ConcreteStr(strings.ToLower(cs))
		}
		ex.outcome("modelbound", "strings.ToLower model is exact for ASCII only", site, smt.And(st.pc, smt.Not(asciiOnly(s))))
		st.assume(asciiOnly(s))
		return mapBytes(s, func(b *smt.Term) *smt.Term {
			return smt.Ite(inRange(b, 'A', 'Z'), smt.Add(b, smt.Const(8, 32)), b)
		})
	}
	S["strings.ToUpper"] = func(ex *Exec, st *State, site ssa.Instruction, fn *ssa.Function, args []Value) Value {
		s := args[0].(*StrV)
		if cs, ok := s.Concrete(); ok {
			return ConcreteStr(strings.ToUpper(cs))
		}
		ex.outcome("modelbound", "strings.ToUpper model is exact for ASCII only", site, smt.And(st.pc, smt.Not(asciiOnly(s))))
		st.assume(asciiOnly(s))
		return mapBytes(s, func(b *smt.Term) *smt.Term {
			return smt.Ite(inRange(b, 'a', 'z'), smt.Sub(b, smt.Const(8, 32)), b)
		})
	}
	// filepath.Ext / path.Ext: the suffix beginning at the final dot of the final path element (empty if none)
	ext := func(ex *Exec, st *State, site ssa.Instruction, fn *ssa.Function, args []Value) Value {
		s := args[0].(*StrV)
		if cs, ok := s.Concrete(); ok {
			return ConcreteStr(filepath.Ext(cs))
		}
		n := len(s.B)
		// start = index of the last '.' that has no '/' after it; n+1 = none
		var res Value = &StrV{Len: bv64(0), B: nil}
		// candidates from the left, later (further right) candidates override earlier ones
		noSlashAfter := make([]*smt.Term, n+1)
		noSlashAfter[n] = smt.True
		for i := n - 1; i >= 0; i-- {
			inb := smt.Ult(bv64(int64(i)), s.Len)
			noSlashAfter[i] = smt.And(noSlashAfter[i+1], smt.Or(smt.Not(inb), smt.Not(smt.Eq(s.B[i], smt.Const(8, '/')))))
		}
		for i := 0; i < n; i++ {
			inb := smt.Ult(bv64(int64(i)), s.Len)
			isDot := smt.And(inb, smt.And(smt.Eq(s.B[i], smt.Const(8, '.')), noSlashAfter[i+1]))
			cand := &StrV{Len: smt.Sub(s.Len, bv64(int64(i))), B: append([]*smt.Term(nil), s.B[i:]...)}
			res = mergeV(isDot, cand, res)
		}
		return res
	}
	S["path/filepath.Ext"] = ext
	S["path.Ext"] = ext
	S["strings.HasSuffix"] = func(ex *Exec, st *State, site ssa.Instruction, fn *ssa.Function, args []Value) Value {
		return hasSuffix(args[0].(*StrV), args[1].(*StrV))
	}
	S["strings.HasPrefix"] = func(ex *Exec, st *State, site ssa.Instruction, fn *ssa.Function, args []Value) Value {
		return hasPrefix(args[0].(*StrV), args[1].(*StrV))
	}
	S["strings.TrimPrefix"] = func(ex *Exec, st *State, site ssa.Instruction, fn *ssa.Function, args []Value) Value {
		s, p := args[0].(*StrV), args[1].(*StrV)
		if cs, ok := s.Concrete(); ok {
			if cp, ok := p.Concrete(); ok {
				return ConcreteStr(strings.TrimPrefix(cs, cp))
			}
		}
		cp, ok := p.Concrete()
		if !ok {
			panic(unsupported("TrimPrefix with symbolic prefix"))
		}
		has := hasPrefix(s, p)
		k := len(cp)
		if k > len(s.B) {
			return s
		}
		trimmed := &StrV{Len: smt.Sub(s.Len, bv64(int64(k))), B: append([]*smt.Term(nil), s.B[k:]...)}
		return mergeV(has, trimmed, s)
	}
	S["strings.Trim"] = func(ex *Exec, st *State, site ssa.Instruction, fn *ssa.Function, args []Value) Value {
		s, okS := args[0].(*StrV).Concrete()
		c, okC := args[1].(*StrV).Concrete()
		if okS && okC {
			return ConcreteStr(strings.Trim(s, c))
		}
		panic(unsupported("strings.Trim on symbolic strings"))
	}
	S["strings.Split"] = func(ex *Exec, st *State, site ssa.Instruction, fn *ssa.Function, args []Value) Value {
		sv := args[0].(*StrV)
		s, okS := sv.Concrete()
		c, okC := args[1].(*StrV).Concrete()
		if okS && okC {
			parts := strings.Split(s, c)
			e := make([]Value, len(parts))
			for i, p := range parts {
				e[i] = ConcreteStr(p)
			}
			id := ex.newObj(st, &ArrayV{E: e})
			return &SliceV{Obj: id, Len: bv64(int64(len(e))), Cap: len(e), MaxLen: len(e)}
		}
		if !okC || len(c) != 1 {
			panic(unsupported("strings.Split on a symbolic string with a separator that is not one concrete byte"))
		}
		// bounded model: 1 part (no separator), 2 parts (exactly one), or "3 or more" (only the count is exact:
		// the parts beyond the second are not modelled; callers that read them get an unsupported obligation)
		sep := smt.Const(8, uint64(c[0]))
		n := len(sv.B)
		isSep := make([]*smt.Term, n)
		cnt := bv64(0)
		for i := 0; i < n; i++ {
			isSep[i] = smt.And(smt.Ult(bv64(int64(i)), sv.Len), smt.Eq(sv.B[i], sep))
			cnt = smt.Add(cnt, smt.Ite(isSep[i], bv64(1), bv64(0)))
		}
		// first separator position
		first := sv.Len
		for i := n - 1; i >= 0; i-- {
			first = smt.Ite(isSep[i], bv64(int64(i)), first)
		}
		none := smt.Eq(cnt, bv64(0))
		one := smt.Eq(cnt, bv64(1))
		p0 := substr(sv, bv64(0), first)
		p1start := smt.Ite(none, sv.Len, smt.Add(first, bv64(1)))
		p1 := substr(sv, p1start, sv.Len)
		e := []Value{p0, p1, ConcreteStr("<unmodelled>")}
		id := ex.newObj(st, &ArrayV{E: e})
		ln := smt.Ite(none, bv64(1), smt.Ite(one, bv64(2), bv64(3)))
		return &SliceV{Obj: id, Len: ln, Cap: 3, MaxLen: 3}
	}
	// fmt.Sscanf, only the shape "x%x" into one *uint16 (a hex code after a literal x): concrete inputs go through the
	// real function; for symbolic inputs the maximal run of hex digits after the x is read and whatever follows it
	// is left unread, as the real function does (its tolerance for a sign or spaces before the digits is not modelled)
	S["fmt.Sscanf"] = func(ex *Exec, st *State, site ssa.Instruction, fn *ssa.Function, args []Value) Value {
		format, okF := args[1].(*StrV).Concrete()
		targets, okT := args[2].(*SliceV)
		if !okF || !okT || format != "x%x" || !targets.Len.IsConst() || targets.Len.V != 1 {
			panic(unsupported("fmt.Sscanf with a format other than \"x%x\" and one target"))
		}
		tv, ok := ex.sliceElems(st, targets)[0].(*IfaceV)
		if !ok {
			panic(unsupported("fmt.Sscanf target"))
		}
		ptr, ok := tv.V.(*PtrV)
		if !ok || tv.T == nil || tv.T.String() != "*uint16" {
			panic(unsupported("fmt.Sscanf target other than *uint16"))
		}
		mkErr := func() Value { return &IfaceV{T: nil, V: ex.newOpaque("error")} }
		sv := args[0].(*StrV)
		if cs, ok := sv.Concrete(); ok {
			var v uint16
			n, err := fmt.Sscanf(cs, "x%x", &v)
			if err != nil {
				return &TupleV{E: []Value{bv64(int64(n)), mkErr()}}
			}
			ex.store(st, site, ptr, smt.Const(16, uint64(v)))
			return &TupleV{E: []Value{bv64(int64(n)), Nil}}
		}
		n := len(sv.B)
		if n > 15 {
			panic(unsupported("fmt.Sscanf on a symbolic string longer than 15 bytes"))
		}
		hexVal := func(b *smt.Term) (*smt.Term, *smt.Term) {
			isD := inRange(b, '0', '9')
			isL := inRange(b, 'a', 'f')
			isU := inRange(b, 'A', 'F')
			v := smt.Ite(isD, smt.Sub(b, smt.Const(8, '0')), smt.Ite(isL, smt.Sub(b, smt.Const(8, 'a'-10)), smt.Sub(b, smt.Const(8, 'A'-10))))
			return smt.ZExt(v, 64), smt.Or(isD, smt.Or(isL, isU))
		}
		okAny := smt.False
		val := bv64(0)
		// digits at positions 1..k (k >= 1) are hex, position k+1 is not hex or past the end
		for k := 1; k < n; k++ {
			c := smt.And(smt.Ugt(sv.Len, bv64(int64(k))), smt.Eq(sv.B[0], smt.Const(8, 'x')))
			v := bv64(0)
			for j := 1; j <= k; j++ {
				d, isH := hexVal(sv.B[j])
				c = smt.And(c, isH)
				v = smt.Add(smt.Mul(v, bv64(16)), d)
			}
			if k+1 < n {
				_, nextH := hexVal(sv.B[k+1])
				c = smt.And(c, smt.Or(smt.Eq(sv.Len, bv64(int64(k+1))), smt.Not(nextH)))
			} else {
				c = smt.And(c, smt.Eq(sv.Len, bv64(int64(k+1))))
			}
			c = smt.And(c, smt.Ule(v, bv64(0xffff)))
			val = smt.Ite(c, v, val)
			okAny = smt.Or(okAny, c)
		}
		ex.guarded(st, okAny, func(st *State) { ex.store(st, site, ptr, smt.Extract(val, 15, 0)) })
		return &TupleV{E: []Value{smt.Ite(okAny, bv64(1), bv64(0)), mergeV(okAny, Nil, mkErr())}}
	}
	S["strconv.ParseUint"] = func(ex *Exec, st *State, site ssa.Instruction, fn *ssa.Function, args []Value) Value {
		sv := args[0].(*StrV)
		base := concreteIntArg(args[1], "ParseUint base")
		bits := concreteIntArg(args[2], "ParseUint bitSize")
		mkErr := func() Value { return &IfaceV{T: nil, V: ex.newOpaque("error")} }
		if cs, ok := sv.Concrete(); ok {
			v, err := strconv.ParseUint(cs, int(base), int(bits))
			if err != nil {
				return &TupleV{E: []Value{smt.Const(64, v), mkErr()}}
			}
			return &TupleV{E: []Value{smt.Const(64, v), Nil}}
		}
		if base != 16 || bits != 16 {
			panic(unsupported("symbolic strconv.ParseUint only for base 16, 16 bits"))
		}
		n := len(sv.B)
		if n > 15 {
			panic(unsupported("strconv.ParseUint on a symbolic string longer than 15 bytes"))
		}
		hexVal := func(b *smt.Term) (*smt.Term, *smt.Term) {
			isD := inRange(b, '0', '9')
			isL := inRange(b, 'a', 'f')
			isU := inRange(b, 'A', 'F')
			v := smt.Ite(isD, smt.Sub(b, smt.Const(8, '0')), smt.Ite(isL, smt.Sub(b, smt.Const(8, 'a'-10)), smt.Sub(b, smt.Const(8, 'A'-10))))
			return smt.ZExt(v, 64), smt.Or(isD, smt.Or(isL, isU))
		}
		okAll := smt.False
		val := bv64(0)
		for L := 1; L <= n; L++ {
			c := smt.Eq(sv.Len, bv64(int64(L)))
			v := bv64(0)
			for k := 0; k < L; k++ {
				d, isH := hexVal(sv.B[k])
				c = smt.And(c, isH)
				v = smt.Add(smt.Mul(v, bv64(16)), d)
			}
			c = smt.And(c, smt.Ule(v, bv64(0xffff))) // out of range is an error (value then is the maximum)
			val = smt.Ite(c, v, val)
			okAll = smt.Or(okAll, c)
		}
		return &TupleV{E: []Value{smt.Ite(okAll, val, bv64(0)), mergeV(okAll, Nil, mkErr())}}
	}
	S["strconv.Atoi"] = func(ex *Exec, st *State, site ssa.Instruction, fn *ssa.Function, args []Value) Value {
		sv := args[0].(*StrV)
		mkErr := func() Value { return &IfaceV{T: nil, V: ex.newOpaque("error")} }
		if cs, ok := sv.Concrete(); ok {
			v, err := strconv.Atoi(cs)
			if err != nil {
				return &TupleV{E: []Value{bv64(0), mkErr()}}
			}
			return &TupleV{E: []Value{bv64(int64(v)), Nil}}
		}
		// bounded model: optional sign followed by 1..k digits, k <= 6 (no overflow possible); anything else is an error
		n := len(sv.B)
		if n > 15 {
			panic(unsupported("strconv.Atoi on a symbolic string longer than 15 bytes"))
		}
		isDigit := func(b *smt.Term) *smt.Term { return inRange(b, '0', '9') }
		dig := func(b *smt.Term) *smt.Term { return smt.ZExt(smt.Sub(b, smt.Const(8, '0')), 64) }
		okAll := smt.False
		val := bv64(0)
		for L := 1; L <= n; L++ {
			for _, signed := range []int{0, 1} { // 0: no sign, 1: sign char first
				nd := L - signed
				if nd < 1 {
					continue
				}
				c := smt.Eq(sv.Len, bv64(int64(L)))
				var neg *smt.Term = smt.False
				if signed == 1 {
					isMinus := smt.Eq(sv.B[0], smt.Const(8, '-'))
					isPlus := smt.Eq(sv.B[0], smt.Const(8, '+'))
					c = smt.And(c, smt.Or(isMinus, isPlus))
					neg = isMinus
				} else {
					c = smt.And(c, isDigit(sv.B[0]))
				}
				v := bv64(0)
				for k := signed; k < L; k++ {
					c = smt.And(c, isDigit(sv.B[k]))
					v = smt.Add(smt.Mul(v, bv64(10)), dig(sv.B[k]))
				}
				v = smt.Ite(neg, smt.Neg(v), v)
				val = smt.Ite(c, v, val)
				okAll = smt.Or(okAll, c)
			}
		}
		return &TupleV{E: []Value{smt.Ite(okAll, val, bv64(0)), mergeV(okAll, Nil, mkErr())}}
	}
	S["strconv.Itoa"] = func(ex *Exec, st *State, site ssa.Instruction, fn *ssa.Function, args []Value) Value {
		t := args[0].(*smt.Term)
		if t.IsConst() {
			return ConcreteStr(strconv.Itoa(int(t.SInt())))
		}
		// bounded model: values -99..999 (enough for octave numbers); outside: obligation
		return itoaSmall(ex, st, site, t)
	}
}

// itoaSmall models strconv.Itoa for -9..9 exactly (1-2 bytes) — used for note octaves — and emits a model-bound
// obligation outside that range.
func itoaSmall(ex *Exec, st *State, site ssa.Instruction, t *smt.Term) Value {
	inb := smt.And(smt.Sge(t, smt.ConstI(64, -9)), smt.Sle(t, smt.ConstI(64, 9)))
	ex.outcome("modelbound", "strconv.Itoa model covers -9..9 only", site, smt.And(st.pc, smt.Not(inb)))
	st.assume(inb)
	neg := smt.Slt(t, smt.ConstI(64, 0))
	abs := smt.Ite(neg, smt.Neg(t), t)
	digit := smt.Add(smt.Extract(abs, 7, 0), smt.Const(8, '0'))
	b0 := smt.Ite(neg, smt.Const(8, '-'), digit)
	b1 := smt.Ite(neg, digit, smt.Const(8, 0))
	return &StrV{Len: smt.Ite(neg, bv64(2), bv64(1)), B: []*smt.Term{b0, b1}}
}
