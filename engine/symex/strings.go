package symex

import (
	"strconv"
	"strings"

	"golang.org/x/tools/go/ssa"
	"verif/engine/smt"
)

func mapBytes(s *StrV, f func(b *smt.Term) *smt.Term) *StrV {
	b := make([]*smt.Term, len(s.B))
	for i := range b {
		b[i] = f(s.B[i])
	}
	return &StrV{Len: s.Len, B: b}
}

func inRange(b *smt.Term, lo, hi byte) *smt.Term {
	return smt.And(smt.Uge(b, smt.Const(8, uint64(lo))), smt.Ule(b, smt.Const(8, uint64(hi))))
}

// asciiOnly is the obligation under which the byte-wise ToLower/ToUpper models are exact.
func asciiOnly(s *StrV) *smt.Term {
	r := smt.True
	for i, b := range s.B {
		r = smt.And(r, smt.Implies(smt.Ult(bv64(int64(i)), s.Len), smt.Ult(b, smt.Const(8, 0x80))))
	}
	return r
}

func hasSuffix(s, suf *StrV) *smt.Term {
	n, ok := suf.Concrete()
	if !ok {
		panic(unsupported("HasSuffix with symbolic suffix"))
	}
	k := len(n)
	if cs, ok := s.Concrete(); ok {
		return smt.BoolC(strings.HasSuffix(cs, n))
	}
	// for each possible length L >= k: bytes L-k..L-1 equal suffix
	r := smt.False
	for L := k; L <= len(s.B); L++ {
		c := smt.Eq(s.Len, bv64(int64(L)))
		for j := 0; j < k; j++ {
			c = smt.And(c, smt.Eq(s.B[L-k+j], smt.Const(8, uint64(n[j]))))
		}
		r = smt.Or(r, c)
	}
	return r
}

func hasPrefix(s, pre *StrV) *smt.Term {
	n, ok := pre.Concrete()
	if !ok {
		panic(unsupported("HasPrefix with symbolic prefix"))
	}
	k := len(n)
	if k > len(s.B) {
		return smt.False
	}
	r := smt.Uge(s.Len, bv64(int64(k)))
	for j := 0; j < k; j++ {
		r = smt.And(r, smt.Eq(s.B[j], smt.Const(8, uint64(n[j]))))
	}
	return r
}

func registerStringStubs(ex *Exec) {
	S := ex.Stubs
	S["strings.ToLower"] = func(ex *Exec, st *State, site ssa.Instruction, fn *ssa.Function, args []Value) Value {
		s := args[0].(*StrV)
		if cs, ok := s.Concrete(); ok {
			return ConcreteStr(strings.ToLower(cs))
		}
		ex.outcome("modelbound", "strings.ToLower model is exact for ASCII only", site, smt.And(st.pc, smt.Not(asciiOnly(s))))
		st.assume(asciiOnly(s))
		return mapBytes(s, func(b *smt.Term) *smt.Term {
			return smt.Ite(inRange(b, 'A', 'Z'), smt.Add(b, smt.Const(8, 32)), b)
		})
	}
	S["strings.ToUpper"] = func(ex *Exec, st *State, site ssa.Instruction, fn *ssa.Function, args []Value) Value {
		s := args[0].(*StrV)
		if cs, ok := s.Concrete(); ok {
			return ConcreteStr(strings.ToUpper(cs))
		}
		ex.outcome("modelbound", "strings.ToUpper model is exact for ASCII only", site, smt.And(st.pc, smt.Not(asciiOnly(s))))
		st.assume(asciiOnly(s))
		return mapBytes(s, func(b *smt.Term) *smt.Term {
			return smt.Ite(inRange(b, 'a', 'z'), smt.Sub(b, smt.Const(8, 32)), b)
		})
	}
	S["strings.HasSuffix"] = func(ex *Exec, st *State, site ssa.Instruction, fn *ssa.Function, args []Value) Value {
		return hasSuffix(args[0].(*StrV), args[1].(*StrV))
	}
	S["strings.HasPrefix"] = func(ex *Exec, st *State, site ssa.Instruction, fn *ssa.Function, args []Value) Value {
		return hasPrefix(args[0].(*StrV), args[1].(*StrV))
	}
	S["strings.TrimPrefix"] = func(ex *Exec, st *State, site ssa.Instruction, fn *ssa.Function, args []Value) Value {
		s, p := args[0].(*StrV), args[1].(*StrV)
		if cs, ok := s.Concrete(); ok {
			if cp, ok := p.Concrete(); ok {
				return ConcreteStr(strings.TrimPrefix(cs, cp))
			}
		}
		cp, ok := p.Concrete()
		if !ok {
			panic(unsupported("TrimPrefix with symbolic prefix"))
		}
		has := hasPrefix(s, p)
		k := len(cp)
		if k > len(s.B) {
			return s
		}
		trimmed := &StrV{Len: smt.Sub(s.Len, bv64(int64(k))), B: append([]*smt.Term(nil), s.B[k:]...)}
		return mergeV(has, trimmed, s)
	}
	S["strings.Trim"] = func(ex *Exec, st *State, site ssa.Instruction, fn *ssa.Function, args []Value) Value {
		s, okS := args[0].(*StrV).Concrete()
		c, okC := args[1].(*StrV).Concrete()
		if okS && okC {
			return ConcreteStr(strings.Trim(s, c))
		}
		panic(unsupported("strings.Trim on symbolic strings"))
	}
	S["strings.Split"] = func(ex *Exec, st *State, site ssa.Instruction, fn *ssa.Function, args []Value) Value {
		s, okS := args[0].(*StrV).Concrete()
		c, okC := args[1].(*StrV).Concrete()
		if okS && okC {
			parts := strings.Split(s, c)
			e := make([]Value, len(parts))
			for i, p := range parts {
				e[i] = ConcreteStr(p)
			}
			id := ex.newObj(st, &ArrayV{E: e})
			return &SliceV{Obj: id, Len: bv64(int64(len(e))), Cap: len(e), MaxLen: len(e)}
		}
		panic(unsupported("strings.Split on symbolic strings"))
	}
	S["strconv.Atoi"] = func(ex *Exec, st *State, site ssa.Instruction, fn *ssa.Function, args []Value) Value {
		sv := args[0].(*StrV)
		mkErr := func() Value { return &IfaceV{T: nil, V: ex.newOpaque("error")} }
		if cs, ok := sv.Concrete(); ok {
			v, err := strconv.Atoi(cs)
			if err != nil {
				return &TupleV{E: []Value{bv64(0), mkErr()}}
			}
			return &TupleV{E: []Value{bv64(int64(v)), Nil}}
		}
		// bounded model: optional sign followed by 1..k digits, k <= 6 (no overflow possible); anything else is an error
		n := len(sv.B)
		if n > 7 {
			panic(unsupported("strconv.Atoi on a symbolic string longer than 7 bytes"))
		}
		isDigit := func(b *smt.Term) *smt.Term { return inRange(b, '0', '9') }
		dig := func(b *smt.Term) *smt.Term { return smt.ZExt(smt.Sub(b, smt.Const(8, '0')), 64) }
		okAll := smt.False
		val := bv64(0)
		for L := 1; L <= n; L++ {
			for _, signed := range []int{0, 1} { // 0: no sign, 1: sign char first
				nd := L - signed
				if nd < 1 {
					continue
				}
				c := smt.Eq(sv.Len, bv64(int64(L)))
				var neg *smt.Term = smt.False
				if signed == 1 {
					isMinus := smt.Eq(sv.B[0], smt.Const(8, '-'))
					isPlus := smt.Eq(sv.B[0], smt.Const(8, '+'))
					c = smt.And(c, smt.Or(isMinus, isPlus))
					neg = isMinus
				} else {
					c = smt.And(c, isDigit(sv.B[0]))
				}
				v := bv64(0)
				for k := signed; k < L; k++ {
					c = smt.And(c, isDigit(sv.B[k]))
					v = smt.Add(smt.Mul(v, bv64(10)), dig(sv.B[k]))
				}
				v = smt.Ite(neg, smt.Neg(v), v)
				val = smt.Ite(c, v, val)
				okAll = smt.Or(okAll, c)
			}
		}
		return &TupleV{E: []Value{smt.Ite(okAll, val, bv64(0)), mergeV(okAll, Nil, mkErr())}}
	}
	S["strconv.Itoa"] = func(ex *Exec, st *State, site ssa.Instruction, fn *ssa.Function, args []Value) Value {
		t := args[0].(*smt.Term)
		if t.IsConst() {
			return ConcreteStr(strconv.Itoa(int(t.SInt())))
		}
		// bounded model: values -99..999 (enough for octave numbers); outside: obligation
		return itoaSmall(ex, st, site, t)
	}
}

// itoaSmall models strconv.Itoa for -9..9 exactly (1-2 bytes) — used for note octaves — and emits a model-bound
// obligation outside that range.
func itoaSmall(ex *Exec, st *State, site ssa.Instruction, t *smt.Term) Value {
	inb := smt.And(smt.Sge(t, smt.ConstI(64, -9)), smt.Sle(t, smt.ConstI(64, 9)))
	ex.outcome("modelbound", "strconv.Itoa model covers -9..9 only", site, smt.And(st.pc, smt.Not(inb)))
	st.assume(inb)
	neg := smt.Slt(t, smt.ConstI(64, 0))
	abs := smt.Ite(neg, smt.Neg(t), t)
	digit := smt.Add(smt.Extract(abs, 7, 0), smt.Const(8, '0'))
	b0 := smt.Ite(neg, smt.Const(8, '-'), digit)
	b1 := smt.Ite(neg, digit, smt.Const(8, 0))
	return &StrV{Len: smt.Ite(neg, bv64(2), bv64(1)), B: []*smt.Term{b0, b1}}
}
