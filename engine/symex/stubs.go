package symex

import (
	"fmt"
	"math"
	"go/types"
	"strings"

	"github.com/lucasb-eyer/go-colorful"
	"golang.org/x/tools/go/ssa"
	"verif/engine/smt"
)

func (ex *Exec) newOpaque(tag string) *Opaque {
	ex.opaqueSeq++
	return &Opaque{Tag: tag, ID: ex.opaqueSeq, Data: map[string]Value{}}
}

func (ex *Exec) freshBool(prefix string) *smt.Term {
	ex.opaqueSeq++
	return ex.NondetVar(fmt.Sprintf("env_%s_%d", prefix, ex.opaqueSeq), smt.Bool)
}

func (ex *Exec) freshBV(prefix string, w int) *smt.Term {
	ex.opaqueSeq++
	return ex.NondetVar(fmt.Sprintf("env_%s_%d", prefix, ex.opaqueSeq), smt.BV(w))
}

// zeroResult returns the zero value(s) of fn's results.
func (ex *Exec) zeroResult(fn *ssa.Function) Value {
	res := fn.Signature.Results()
	switch res.Len() {
	case 0:
		return nil
	case 1:
		return ex.zero(res.At(0).Type())
	}
	return ex.zero(res)
}

func stubZero(ex *Exec, st *State, site ssa.Instruction, fn *ssa.Function, args []Value) Value {
	// flag.Bool & co. return pointers that the program dereferences: give them a zero-valued target
	res := fn.Signature.Results()
	if res.Len() == 1 && strings.HasPrefix(fnName(fn), "flag.") {
		if pt, ok := res.At(0).Type().Underlying().(*types.Pointer); ok {
			id := ex.newObj(st, ex.zero(pt.Elem()))
			return &PtrV{Obj: id}
		}
	}
	return ex.zeroResult(fn)
}

func stubNop(ex *Exec, st *State, site ssa.Instruction, fn *ssa.Function, args []Value) Value {
	return nil
}

var zeroPrefixes = []string{
	"flag.",
	"(*flag.",
	"go.uber.org/zap",
	"(*go.uber.org/zap",
	"(go.uber.org/zap",
}

func (ex *Exec) prefixStub(fn *ssa.Function, name string) StubFn {
	for _, p := range zeroPrefixes {
		if strings.HasPrefix(name, p) {
			return stubZero
		}
	}
	if strings.HasSuffix(pkgPathOf(fn), "/internal/verifrt") {
		return intrinsic
	}
	return nil
}

func pkgPathOf(fn *ssa.Function) string {
	if fn.Pkg != nil {
		return fn.Pkg.Pkg.Path()
	}
	if o := fn.Origin(); o != nil && o.Pkg != nil {
		return o.Pkg.Pkg.Path()
	}
	if fn.Object() != nil && fn.Object().Pkg() != nil {
		return fn.Object().Pkg().Path()
	}
	return ""
}

func concreteStrArg(v Value, what string) string {
	s, ok := v.(*StrV)
	if !ok {
		panic(unsupported(what + ": not a string"))
	}
	cs, ok := s.Concrete()
	if !ok {
		panic(unsupported(what + ": string must be concrete"))
	}
	return cs
}

func concreteIntArg(v Value, what string) int64 {
	t, ok := v.(*smt.Term)
	if !ok || !t.IsConst() {
		panic(unsupported(what + ": integer must be concrete"))
	}
	return t.SInt()
}

// intrinsic implements the harness runtime package internal/verifrt.
func intrinsic(ex *Exec, st *State, site ssa.Instruction, fn *ssa.Function, args []Value) Value {
	name := fn.Name()
	if name == "init" {
		return nil
	}
	nd := func(w int) Value {
		return ex.NondetVar(concreteStrArg(args[0], name), smt.BV(w))
	}
	switch name {
	case "U8", "I8":
		return nd(8)
	case "U16", "I16":
		return nd(16)
	case "U32", "I32":
		return nd(32)
	case "U64", "I64", "Int":
		return nd(64)
	case "Bool":
		return ex.NondetVar(concreteStrArg(args[0], name), smt.Bool)
	case "F64":
		return smt.FFromBits(ex.NondetVar(concreteStrArg(args[0], name), smt.BV(64)))
	case "Str":
		nm := concreteStrArg(args[0], name)
		n := int(concreteIntArg(args[1], name))
		ln := ex.NondetVar(nm+".len", smt.BV(8))
		st.assume(smt.Ule(ln, smt.Const(8, uint64(n))))
		b := make([]*smt.Term, n)
		for i := range b {
			b[i] = ex.NondetVar(fmt.Sprintf("%s.b%d", nm, i), smt.BV(8))
		}
		return &StrV{Len: smt.ZExt(ln, 64), B: b}
	case "N":
		base := concreteStrArg(args[0], name)
		var sb strings.Builder
		sb.WriteString(base)
		if sl, ok := args[1].(*SliceV); ok {
			for _, e := range ex.sliceElems(st, sl) {
				fmt.Fprintf(&sb, "_%d", concreteIntArg(e, "verifrt.N index"))
			}
		}
		return ConcreteStr(sb.String())
	case "Assume":
		st.assume(args[0].(*smt.Term))
		return nil
	case "Assert":
		c := args[0].(*smt.Term)
		msg := concreteStrArg(args[1], "Assert message")
		ex.outcome("assert", msg, site, smt.And(st.pc, smt.Not(c)))
		return nil
	case "Cover":
		ex.outcome("cover", concreteStrArg(args[0], "Cover label"), site, st.pc)
		return nil
	case "Known":
		ex.Known = append(ex.Known, KnownPred{ID: concreteStrArg(args[0], name), Pred: smt.And(st.pc, args[1].(*smt.Term))})
		return nil
	case "TOMLBytesFail":
		iv, ok := args[0].(*IfaceV)
		if !ok {
			panic(unsupported("TOMLBytesFail needs a pointer to the decoded struct"))
		}
		ex.Decoded = iv.V
		ex.DecodeFailKind = smt.Extract(args[1].(*smt.Term), 7, 0)
		return ex.strToBytes(st, ConcreteStr("<toml>"))
	case "TOMLToken":
		// several files: each registration gets a 2-byte token that travels through the file-system model;
		// the decoder stub recognises it in the bytes it is given
		iv, ok := args[0].(*IfaceV)
		if !ok {
			panic(unsupported("TOMLToken needs a pointer to the decoded struct"))
		}
		ex.DecodedList = append(ex.DecodedList, decodedReg{val: iv.V, kind: smt.Extract(args[1].(*smt.Term), 7, 0)})
		id := ex.newObj(st, &ArrayV{E: []Value{smt.Const(8, 0xF0), smt.Const(8, uint64(len(ex.DecodedList)-1))}})
		return &SliceV{Obj: id, Len: bv64(2), Cap: 2, MaxLen: 2}
	case "TOMLBytes":
		// registers the decoded value for the decoder stubs and returns placeholder bytes
		iv, ok := args[0].(*IfaceV)
		if !ok {
			panic(unsupported("TOMLBytes needs a pointer to the decoded struct"))
		}
		ex.Decoded = iv.V
		return ex.strToBytes(st, ConcreteStr("<toml>"))
	case "RunConcurrent":
		k := int(concreteIntArg(args[0], name))
		ex.inE2 = true
		ex.RunConcurrent(st, site, k, args[1])
		ex.inE2 = false
		return nil
	case "AnyEnabled":
		return ex.goroutineQuery(st, "AnyEnabled", "")
	case "Live":
		return ex.goroutineQuery(st, "Live", concreteStrArg(args[0], name))
	case "BlockedIn":
		return ex.goroutineQuery(st, "BlockedIn", concreteStrArg(args[0], name))
	case "RegisterWatcher":
		iv, ok := args[0].(*IfaceV)
		if !ok {
			panic(unsupported("RegisterWatcher needs a channel"))
		}
		ex.WatcherChan = iv.V
		if len(args) > 1 {
			if dv, ok := args[1].(*IfaceV); ok {
				ex.WatcherDone = dv.V
			}
		}
		return nil
	case "Protect", "ProtectRW":
		// Protect(object, mutex): object is a map or a pointer; mutex a *sync.Mutex. ProtectRW: reads count too
		// (for state that several goroutines write)
		iv, ok := args[0].(*IfaceV)
		if !ok {
			panic(unsupported("Protect needs a map or pointer"))
		}
		var obj int
		switch o := iv.V.(type) {
		case *MapV:
			obj = o.Obj
		case *PtrV:
			obj = o.Obj
		default:
			panic(unsupported("Protect of " + describe(iv.V)))
		}
		mu := ex.syncCell(st, args[1], "mutex")
		if ex.protected == nil {
			ex.protected = map[int]int{}
		}
		ex.protected[obj] = mu
		if name == "ProtectRW" {
			if ex.protectedRW == nil {
				ex.protectedRW = map[int]bool{}
			}
			ex.protectedRW[obj] = true
		}
		return nil
	case "RegisterLED":
		// RegisterLED(dev *openrgb.Device, capture *LedCapture, cancel func())
		ex.LedDevice, ex.LedCapture, ex.LedCancel = args[0], args[1], args[2]
		return nil
	case "Attempts":
		return bv64(1)
	case "Jitter":
		return nil
	case "Enable":
		if ex.Flags == nil {
			ex.Flags = map[string]bool{}
		}
		ex.Flags[concreteStrArg(args[0], name)] = true
		return nil
	case "Param":
		nm := concreteStrArg(args[0], name)
		if v, ok := ex.Params[nm]; ok {
			return bv64(int64(v))
		}
		return args[1]
	case "PermuteMaps":
		ex.PermuteMaps = args[0].(*smt.Term).IsTrue()
		return nil
	case "SetUnwind":
		ex.Unwind = int(concreteIntArg(args[0], name))
		return nil
	case "Symbolic":
		return smt.True
	}
	panic(unsupported("unknown verifrt intrinsic " + name))
}

func registerStubs(ex *Exec) {
	S := ex.Stubs
	for _, n := range []string{
		"(*sync.Mutex).Lock", "(*sync.Mutex).Unlock", "(*sync.RWMutex).Lock", "(*sync.RWMutex).Unlock",
		"(*sync.RWMutex).RLock", "(*sync.RWMutex).RUnlock",
		"(*sync.WaitGroup).Add", "(*sync.WaitGroup).Done", "(*sync.WaitGroup).Wait",
		"time.Sleep",
	} {
		S[n] = stubNop
	}
	// flag "locks" (sequential runs): a mutex remembers whether it is held; locking a mutex the only goroutine
	// already holds can never succeed (reported, path ends); TryLock answers from the recorded state
	S["flag:locks:(*sync.Mutex).Lock"] = func(ex *Exec, st *State, site ssa.Instruction, fn *ssa.Function, args []Value) Value {
		held := smt.Not(smt.Eq(ex.syncRead(st, args[0], "mutex"), bv64(0)))
		if !held.IsFalse() {
			ex.outcome("panic", "deadlock: Lock of a mutex the same goroutine already holds (an earlier path left it locked)", site, smt.And(st.pc, held))
			st.assume(smt.Not(held))
			if st.dead {
				return nil
			}
		}
		ex.lockOrder(st, site, args[0])
		ex.syncWrite(st, args[0], "mutex", func(*smt.Term) *smt.Term { return bv64(1) })
		return nil
	}
	S["flag:locks:(*sync.Mutex).Unlock"] = func(ex *Exec, st *State, site ssa.Instruction, fn *ssa.Function, args []Value) Value {
		free := smt.Eq(ex.syncRead(st, args[0], "mutex"), bv64(0))
		if !free.IsFalse() {
			ex.outcome("panic", "fatal error: sync: unlock of unlocked mutex", site, smt.And(st.pc, free))
			st.assume(smt.Not(free))
			if st.dead {
				return nil
			}
		}
		ex.syncWrite(st, args[0], "mutex", func(*smt.Term) *smt.Term { return bv64(0) })
		return nil
	}
	S["flag:locks:(*sync.Mutex).TryLock"] = func(ex *Exec, st *State, site ssa.Instruction, fn *ssa.Function, args []Value) Value {
		free := smt.Eq(ex.syncRead(st, args[0], "mutex"), bv64(0))
		ex.syncWrite(st, args[0], "mutex", func(*smt.Term) *smt.Term { return bv64(1) })
		return free
	}
	S["github.com/gethiox/HIDI/internal/pkg/logger.GetLogger"] = stubZero
	S["(*github.com/gethiox/HIDI/internal/pkg/midi/device.Device).logFields"] = stubZero
	// contexts carry a real channel that cancel() closes
	newCtx := func(ex *Exec, st *State) (*Opaque, *ChanV) {
		op := ex.newOpaque("ctx")
		ch := &ChanV{Obj: ex.newObj(st, ex.newChanC(0, types.NewStruct(nil, nil)))}
		op.Data["done"] = ch
		return op, ch
	}
	S["context.Background"] = func(ex *Exec, st *State, site ssa.Instruction, fn *ssa.Function, args []Value) Value {
		op, _ := newCtx(ex, st)
		return &IfaceV{T: nil, V: op}
	}
	S["context.WithCancel"] = func(ex *Exec, st *State, site ssa.Instruction, fn *ssa.Function, args []Value) Value {
		op, ch := newCtx(ex, st)
		cancel := ex.newOpaque("cancel")
		cancel.Data["done"] = ch
		// cancelling the parent cancels the child: remember the parent
		if iv, ok := args[0].(*IfaceV); ok {
			if pop, ok := iv.V.(*Opaque); ok {
				op.Data["parent"] = pop
			}
		}
		return &TupleV{E: []Value{&IfaceV{T: nil, V: op}, cancel}}
	}
	S["cancel.call"] = func(ex *Exec, st *State, site ssa.Instruction, fn *ssa.Function, args []Value) Value {
		ch := args[0].(*Opaque).Data["done"].(*ChanV)
		cc := ex.get(st, ch.Obj).(*ChanC)
		n := *cc
		n.Closed = smt.True
		st.heap[ch.Obj] = &n
		return nil
	}
	S["ctx.Err"] = func(ex *Exec, st *State, site ssa.Instruction, fn *ssa.Function, args []Value) Value {
		// non-nil exactly when the context's channel (or a parent's) has been closed
		op := args[0].(*Opaque)
		closed := ex.get(st, op.Data["done"].(*ChanV).Obj).(*ChanC).Closed
		if p, ok := op.Data["parent"].(*Opaque); ok {
			closed = smt.Or(closed, ex.get(st, p.Data["done"].(*ChanV).Obj).(*ChanC).Closed)
		}
		if ex.ctxErr == nil {
			ex.ctxErr = &IfaceV{T: nil, V: ex.newOpaque("error")}
		}
		return mergeV(closed, Value(ex.ctxErr), Value(Nil))
	}
	S["ctx.Done"] = func(ex *Exec, st *State, site ssa.Instruction, fn *ssa.Function, args []Value) Value {
		op := args[0].(*Opaque)
		if p, ok := op.Data["parent"].(*Opaque); ok {
			// a derived context is done when its own or its parent's channel is closed: propagate lazily
			pch := p.Data["done"].(*ChanV)
			own := op.Data["done"].(*ChanV)
			pc := ex.get(st, pch.Obj).(*ChanC)
			oc := ex.get(st, own.Obj).(*ChanC)
			n := *oc
			n.Closed = smt.Or(oc.Closed, pc.Closed)
			st.heap[own.Obj] = &n
		}
		return op.Data["done"]
	}
	S["time.After"] = func(ex *Exec, st *State, site ssa.Instruction, fn *ssa.Function, args []Value) Value {
		// a timer that has fired: the scheduler decides when the receive happens
		et := fn.Signature.Results().At(0).Type().Underlying().(*types.Chan).Elem()
		cc := ex.newChanC(1, et)
		if cc.Ring {
			cc.Len = bv64(1)
		} else {
			cc.Entries = []ChanEntry{{G: smt.True, V: ex.zero(et)}}
		}
		id := ex.newObj(st, cc)
		return &ChanV{Obj: id}
	}
	S["fmt.Sprintf"] = stubSprintf
	S["fmt.Errorf"] = func(ex *Exec, st *State, site ssa.Instruction, fn *ssa.Function, args []Value) Value {
		op := ex.newOpaque("error")
		// remember wrapped errors for errors.Is
		if sl, ok := args[1].(*SliceV); ok {
			for _, e := range ex.sliceElems(st, sl) {
				if iv, ok := e.(*IfaceV); ok {
					if isErrorLike(iv) {
						op.Data["wrapped"] = iv
					}
				}
			}
		}
		return &IfaceV{T: nil, V: op}
	}
	S["error.Error"] = func(ex *Exec, st *State, site ssa.Instruction, fn *ssa.Function, args []Value) Value {
		return ConcreteStr("<error>")
	}
	S["errors.Is"] = func(ex *Exec, st *State, site ssa.Instruction, fn *ssa.Function, args []Value) Value {
		return ex.errorsIs(args[0], args[1])
	}
	ex.Interp["errors.New"] = true
	ex.Interp["(*errors.errorString).Error"] = true
	S["sort.Ints"] = func(ex *Exec, st *State, site ssa.Instruction, fn *ssa.Function, args []Value) Value {
		// havoc the contents (sound over-approximation of sorting)
		if sl, ok := args[0].(*SliceV); ok && sl.Obj != 0 {
			arr := ex.get(st, sl.Obj).(*ArrayV)
			e := append([]Value(nil), arr.E...)
			for i := 0; i < sl.MaxLen; i++ {
				e[sl.Off+i] = ex.freshBV("sorted", 64)
			}
			st.heap[sl.Obj] = &ArrayV{E: e}
		}
		return nil
	}
	S["math.Floor"] = func(ex *Exec, st *State, site ssa.Instruction, fn *ssa.Function, args []Value) Value {
		return smt.FFloor(args[0].(*smt.Term))
	}
	S["math.Abs"] = func(ex *Exec, st *State, site ssa.Instruction, fn *ssa.Function, args []Value) Value {
		return smt.FAbs(args[0].(*smt.Term))
	}
	S["github.com/holoplot/go-evdev.Open"] = func(ex *Exec, st *State, site ssa.Instruction, fn *ssa.Function, args []Value) Value {
		// in the sandbox (and for handlers without an event node) opening always fails; the name/uniq/abs-info
		// bookkeeping behind a successful open is outside the claim
		return &TupleV{E: []Value{Nil, &IfaceV{T: nil, V: ex.newOpaque("error")}}}
	}
	// optional summary of a pure HIDI callee (enabled by a harness with verifrt.Enable): the handler type is read
	// from DeviceInfo.Properties[0], where the harness put the type its capability list really has (checked by a
	// separate harness against the real HandlerType)
	S["flag:HandlerTypeFromProperties:(*github.com/gethiox/HIDI/internal/pkg/input.DeviceInfo).HandlerType"] = func(ex *Exec, st *State, site ssa.Instruction, fn *ssa.Function, args []Value) Value {
		return ex.withChoice(st, args[0], func(st *State, v Value) Value {
			di := ex.load(st, site, v.(*PtrV)).(*StructV)
			// field order of DeviceInfo: ID, Name, Phys, Sysfs, Uniq, eventName, CapableTypes, Properties
			props := di.F[7]
			return ex.withChoice(st, props, func(st *State, pv Value) Value {
				sl := pv.(*SliceV)
				el := ex.sliceElems(st, sl)
				if len(el) == 0 {
					return bv64(0)
				}
				return smt.ZExt(el[0].(*smt.Term), 64)
			})
		})
	}
	// fsnotify: the watcher hands out the event channel registered by the harness; Add always succeeds; Close ends
	// the event stream (as the library's reader goroutine does on shutdown)
	S["github.com/fsnotify/fsnotify.NewWatcher"] = func(ex *Exec, st *State, site ssa.Instruction, fn *ssa.Function, args []Value) Value {
		if ex.WatcherChan == nil {
			panic(unsupported("fsnotify.NewWatcher without verifrt.RegisterWatcher"))
		}
		wt := fn.Signature.Results().At(0).Type().(*types.Pointer).Elem()
		w := ex.zero(wt).(*StructV)
		f := append([]Value(nil), w.F...)
		f[0] = ex.WatcherChan
		id := ex.newObj(st, &StructV{F: f})
		return &TupleV{E: []Value{&PtrV{Obj: id}, Nil}}
	}
	S["(*github.com/fsnotify/fsnotify.Watcher).Add"] = func(ex *Exec, st *State, site ssa.Instruction, fn *ssa.Function, args []Value) Value {
		return Nil
	}
	S["(*github.com/fsnotify/fsnotify.Watcher).Close"] = func(ex *Exec, st *State, site ssa.Instruction, fn *ssa.Function, args []Value) Value {
		_ = ex.load(st, site, args[0].(*PtrV))
		// Close asks the library's reader goroutine (played by the harness) to stop: it closes the done channel;
		// the reader then closes Events
		ex.withChoice(st, ex.WatcherDone, func(st *State, ch Value) Value {
			cv := ch.(*ChanV)
			cc := ex.get(st, cv.Obj).(*ChanC)
			n := *cc
			n.Closed = smt.True
			st.heap[cv.Obj] = &n
			return nil
		})
		return Nil
	}
	// flag "clock": the clock is an arbitrary non-decreasing sequence of instants (kept in Time.ext); without the
	// flag every instant is the zero Time and deadlines never expire
	S["time.Now"] = func(ex *Exec, st *State, site ssa.Instruction, fn *ssa.Function, args []Value) Value {
		z := ex.zeroResult(fn)
		if !ex.Flags["clock"] {
			return z
		}
		t := ex.freshBV("clock", 64)
		st.assume(smt.Sge(t, bv64(0)))
		st.assume(smt.Slt(t, bv64(1<<40)))
		if ex.lastClock != nil {
			st.assume(smt.Sge(t, ex.lastClock))
		}
		ex.lastClock = t
		zs := z.(*StructV)
		f := append([]Value(nil), zs.F...)
		f[1] = t
		return &StructV{F: f}
	}
	S["(time.Time).Add"] = func(ex *Exec, st *State, site ssa.Instruction, fn *ssa.Function, args []Value) Value {
		if !ex.Flags["clock"] {
			return ex.zeroResult(fn)
		}
		zs := args[0].(*StructV)
		f := append([]Value(nil), zs.F...)
		f[1] = smt.Add(zs.F[1].(*smt.Term), args[1].(*smt.Term))
		return &StructV{F: f}
	}
	S["(time.Time).After"] = func(ex *Exec, st *State, site ssa.Instruction, fn *ssa.Function, args []Value) Value {
		if ex.Flags["clock"] {
			return smt.Sgt(args[0].(*StructV).F[1].(*smt.Term), args[1].(*StructV).F[1].(*smt.Term))
		}
		// deadlines of seconds never expire within the few steps of a bounded run
		return smt.False
	}
	S["time.NewTimer"] = stubZero
	S["github.com/realbucksavage/openrgb-go.Connect"] = func(ex *Exec, st *State, site ssa.Instruction, fn *ssa.Function, args []Value) Value {
		if ex.Flags["led"] {
			return &TupleV{E: []Value{ex.newOpaque("openrgbClient"), Nil}}
		}
		// no server: the connection attempt fails (LED feedback connected is the subject of C17's harness)
		return &TupleV{E: []Value{Nil, &IfaceV{T: nil, V: ex.newOpaque("error")}}}
	}
	registerTomlStubs(ex)
	registerLedStubs(ex)
	registerSyncMapStubs(ex)
	registerFSStubs(ex)
	registerStringStubs(ex)
	registerRegexStubs(ex)
}

func isErrorLike(iv *IfaceV) bool {
	if op, ok := iv.V.(*Opaque); ok && op.Tag == "error" {
		return true
	}
	if iv.T != nil {
		if p, ok := iv.T.(*types.Pointer); ok {
			if n, ok := p.Elem().(*types.Named); ok && n.Obj().Name() == "errorString" {
				return true
			}
		}
		// any type with an Error() string method
		ms := types.NewMethodSet(iv.T)
		for i := 0; i < ms.Len(); i++ {
			if ms.At(i).Obj().Name() == "Error" {
				return true
			}
		}
	}
	return false
}

func (ex *Exec) errorsIs(err, target Value) *smt.Term {
	switch e := err.(type) {
	case *NilV:
		return smt.False
	case *ChoiceV:
		return smt.Ite(e.C, ex.errorsIs(e.A, target), ex.errorsIs(e.B, target))
	case *IfaceV:
		if ch, ok := e.V.(*ChoiceV); ok {
			return smt.Ite(ch.C, ex.errorsIs(&IfaceV{T: e.T, V: ch.A}, target), ex.errorsIs(&IfaceV{T: e.T, V: ch.B}, target))
		}
		eq := ex.eqV(e, target)
		if eq.IsTrue() {
			return eq
		}
		if op, ok := e.V.(*Opaque); ok {
			if w, ok := op.Data["wrapped"]; ok {
				return smt.Or(eq, ex.errorsIs(w, target))
			}
			if is, ok := op.Data["is:"+keyIdent(target)]; ok {
				return smt.Or(eq, is.(*smt.Term))
			}
		}
		return eq
	}
	return smt.False
}

// goValue converts a concrete Value of interface{} payload into a Go value for native formatting.
func goValue(iv Value) (interface{}, bool) {
	switch x := iv.(type) {
	case *NilV:
		return nil, true
	case *IfaceV:
		switch v := x.V.(type) {
		case *smt.Term:
			if !v.IsConst() {
				return nil, false
			}
			if x.T != nil {
				if b, ok := x.T.Underlying().(*types.Basic); ok {
					switch {
					case b.Kind() == types.Bool:
						return v.V != 0, true
					case b.Info()&types.IsFloat != 0:
						return v.Float(), true
					case b.Info()&types.IsUnsigned != 0:
						switch v.S.W {
						case 8:
							return uint8(v.V), true
						case 16:
							return uint16(v.V), true
						case 32:
							return uint32(v.V), true
						}
						return v.V, true
					default:
						switch v.S.W {
						case 8:
							return int8(v.SInt()), true
						case 16:
							return int16(v.SInt()), true
						case 32:
							return int32(v.SInt()), true
						}
						return int(v.SInt()), true
					}
				}
			}
			return v.V, true
		case *StrV:
			s, ok := v.Concrete()
			return s, ok
		}
	}
	return nil, false
}

func stubSprintf(ex *Exec, st *State, site ssa.Instruction, fn *ssa.Function, args []Value) Value {
	format, ok := args[0].(*StrV).Concrete()
	if !ok {
		panic(unsupported("Sprintf with symbolic format"))
	}
	var goArgs []interface{}
	allConcrete := true
	if sl, ok := args[1].(*SliceV); ok {
		for _, e := range ex.sliceElems(st, sl) {
			g, ok := goValue(e)
			if !ok {
				allConcrete = false
				break
			}
			goArgs = append(goArgs, g)
		}
	}
	if allConcrete {
		return ConcreteStr(fmt.Sprintf(format, goArgs...))
	}
	if format == "%d" || format == "%d_neg" || format == "/dev/input/%s" {
		panic(unsupported("Sprintf(" + format + ") of a symbolic value is used as an identifier"))
	}
	ex.Notes = append(ex.Notes, "imprecise Sprintf("+format+")")
	return ConcreteStr("<sprintf>")
}

// evdevTables: a small real subset of go-evdev's name tables (the package initialiser is not run).
// Names outside the subset are "not found" on both sides of every comparison; stated as a bound of the claim.
var evdevKeys = map[string]uint16{"KEY_ESC": 1, "KEY_1": 2, "KEY_A": 30, "KEY_S": 31, "KEY_D": 32, "KEY_Z": 44, "KEY_LEFTALT": 56, "KEY_F1": 59, "KEY_F2": 60}
var evdevAbs = map[string]uint16{"ABS_X": 0, "ABS_Y": 1, "ABS_Z": 2, "ABS_RX": 3, "ABS_HAT0X": 16, "ABS_HAT0Y": 17}

func tableInit(tbl map[string]uint16) func(ex *Exec, st *State) Value {
	return func(ex *Exec, st *State) Value {
		names := make([]string, 0, len(tbl))
		for n := range tbl {
			names = append(names, n)
		}
		sortStrings(names)
		mc := &MapC{}
		for _, n := range names {
			mc.Entries = append(mc.Entries, MapEntry{K: ConcreteStr(n), P: smt.True, V: smt.Const(16, uint64(tbl[n]))})
		}
		id := ex.newObj(st, mc)
		return &MapV{Obj: id}
	}
}

func sortStrings(a []string) {
	for i := 1; i < len(a); i++ {
		for j := i; j > 0 && a[j] < a[j-1]; j-- {
			a[j], a[j-1] = a[j-1], a[j]
		}
	}
}

func registerTomlStubs(ex *Exec) {
	S := ex.Stubs
	// text rendering of a MIDI message for a debug log line: content irrelevant
	S["(gitlab.com/gomidi/midi/v2.Message).String"] = func(ex *Exec, st *State, site ssa.Instruction, fn *ssa.Function, args []Value) Value {
		return ConcreteStr("<midi message>")
	}
	ex.GlobalInit["github.com/holoplot/go-evdev.KEYFromString"] = tableInit(evdevKeys)
	ex.GlobalInit["github.com/holoplot/go-evdev.ABSFromString"] = tableInit(evdevAbs)
	S["bytes.NewReader"] = func(ex *Exec, st *State, site ssa.Instruction, fn *ssa.Function, args []Value) Value {
		r := ex.newOpaque("bytesReader")
		r.Data["bytes"] = args[0]
		return r
	}
	S["github.com/pelletier/go-toml/v2.NewDecoder"] = func(ex *Exec, st *State, site ssa.Instruction, fn *ssa.Function, args []Value) Value {
		d := ex.newOpaque("tomlDecoder")
		if iv, ok := args[0].(*IfaceV); ok {
			if r, ok := iv.V.(*Opaque); ok {
				d.Data["bytes"] = r.Data["bytes"]
			}
		}
		return d
	}
	S["(*github.com/pelletier/go-toml/v2.Decoder).DisallowUnknownFields"] = func(ex *Exec, st *State, site ssa.Instruction, fn *ssa.Function, args []Value) Value {
		return args[0]
	}
	// decodeTokens: the bytes are a token registered by verifrt.TOMLToken (decodes to that value or fails with the
	// registered kind), empty (valid TOML: the target keeps its zero value) or anything else (syntax error)
	decodeTokens := func(ex *Exec, st *State, site ssa.Instruction, data *SliceV, target Value) Value {
		var dst *PtrV
		switch t := target.(type) {
		case *PtrV:
			dst = t
		case *IfaceV:
			dst, _ = t.V.(*PtrV)
		}
		if dst == nil {
			panic(unsupported("toml decode target is not a pointer"))
		}
		elems := ex.sliceElems(st, data)
		b := func(i int) *smt.Term {
			if i < len(elems) {
				return elems[i].(*smt.Term)
			}
			return smt.Const(8, 0)
		}
		isTok := smt.And(smt.Eq(data.Len, bv64(2)), smt.Eq(b(0), smt.Const(8, 0xF0)))
		empty := smt.Eq(data.Len, bv64(0))
		okAny := empty
		isDecodeErr := smt.And(smt.Not(isTok), smt.Not(empty))
		isStrictErr := smt.False
		known := smt.False
		for i, reg := range ex.DecodedList {
			ci := smt.And(isTok, smt.Eq(b(1), smt.Const(8, uint64(i))))
			known = smt.Or(known, ci)
			oki := smt.And(ci, smt.Eq(reg.kind, smt.Const(8, 0)))
			okAny = smt.Or(okAny, oki)
			isDecodeErr = smt.Or(isDecodeErr, smt.And(ci, smt.Eq(reg.kind, smt.Const(8, 1))))
			isStrictErr = smt.Or(isStrictErr, smt.And(ci, smt.Eq(reg.kind, smt.Const(8, 2))))
			if crash := smt.And(ci, smt.Eq(reg.kind, smt.Const(8, 4))); !crash.IsFalse() {
				ex.panicOutcome(st, "the TOML decoder panicked (value of a kind it cannot assign, e.g. a date where a number is expected)", site, smt.And(st.pc, crash))
				st.assume(smt.Not(crash))
				if st.dead {
					return nil
				}
			}
			src, ok := reg.val.(*PtrV)
			if !ok {
				panic(unsupported("registered decoded value is not a pointer"))
			}
			ex.guarded(st, oki, func(st *State) {
				st.heap[dst.Obj] = ex.setPath(ex.get(st, dst.Obj), dst.Path, ex.load(st, site, src))
			})
		}
		// a token-shaped content that was never registered is a syntax error as well
		isDecodeErr = smt.Or(isDecodeErr, smt.And(isTok, smt.Not(known)))
		errOp := ex.newOpaque("error")
		errOp.Data["decodeErr"] = isDecodeErr
		errOp.Data["strictErr"] = isStrictErr
		return mergeV(smt.Not(okAny), &IfaceV{T: nil, V: errOp}, Nil)
	}
	decode := func(ex *Exec, st *State, site ssa.Instruction, target Value) Value {
		// the library either fails or leaves an arbitrary value of the target type: the harness supplies that value
		fail := ex.freshBool("toml_decode_fails")
		var isDecodeErr *smt.Term = ex.freshBool("toml_error_is_decode_error")
		var isStrictErr *smt.Term = smt.And(smt.Not(isDecodeErr), ex.freshBool("toml_error_is_strict_missing_error"))
		if ex.DecodeFailKind != nil {
			// the harness chose: 0 decodes, 1 syntax error (*toml.DecodeError), 2 unknown field
			// (*toml.StrictMissingError), 3 a value of the wrong kind (a plain error, neither of the two)
			fail = smt.Not(smt.Eq(ex.DecodeFailKind, smt.Const(8, 0)))
			isDecodeErr = smt.Eq(ex.DecodeFailKind, smt.Const(8, 1))
			isStrictErr = smt.Eq(ex.DecodeFailKind, smt.Const(8, 2))
			// 4: the library panics (go-toml v2.0.3 does, in reflect.Set, for e.g. a date where a number is expected)
			crash := smt.Eq(ex.DecodeFailKind, smt.Const(8, 4))
			if !crash.IsFalse() {
				ex.panicOutcome(st, "the TOML decoder panicked (value of a kind it cannot assign, e.g. a date where a number is expected)", site, smt.And(st.pc, crash))
				st.assume(smt.Not(crash))
				if st.dead {
					return nil
				}
			}
		}
		if ex.Decoded == nil {
			panic(unsupported("toml decode without a registered decoded value (verifrt.TOMLBytes)"))
		}
		src, ok := ex.Decoded.(*PtrV)
		if !ok {
			panic(unsupported("registered decoded value is not a pointer"))
		}
		var dst *PtrV
		switch t := target.(type) {
		case *PtrV:
			dst = t
		case *IfaceV:
			dst, _ = t.V.(*PtrV)
		}
		if dst == nil {
			panic(unsupported("toml decode target is not a pointer"))
		}
		ex.guarded(st, smt.Not(fail), func(st *State) {
			st.heap[dst.Obj] = ex.setPath(ex.get(st, dst.Obj), dst.Path, ex.load(st, site, src))
		})
		errOp := ex.newOpaque("error")
		errOp.Data["decodeErr"] = isDecodeErr
		errOp.Data["strictErr"] = isStrictErr
		return mergeV(fail, &IfaceV{T: nil, V: errOp}, Nil)
	}
	S["errors.As"] = func(ex *Exec, st *State, site ssa.Instruction, fn *ssa.Function, args []Value) Value {
		// only the go-toml error kinds are modelled: a decoder failure is or is not a *toml.DecodeError
		tgt, ok := args[1].(*IfaceV)
		if !ok {
			panic(unsupported("errors.As target"))
		}
		tp, ok := tgt.V.(*PtrV)
		field, tag := "decodeErr", "tomlDecodeError"
		if ok && tgt.T != nil && strings.Contains(tgt.T.String(), "StrictMissingError") {
			field, tag = "strictErr", "tomlStrictMissingError"
		} else if !ok || tgt.T == nil || !strings.Contains(tgt.T.String(), "DecodeError") {
			panic(unsupported("errors.As with a target other than **toml.DecodeError / **toml.StrictMissingError"))
		}
		var is *smt.Term = smt.False
		var walk func(e Value) *smt.Term
		walk = func(e Value) *smt.Term {
			switch x := e.(type) {
			case *ChoiceV:
				return smt.Ite(x.C, walk(x.A), walk(x.B))
			case *IfaceV:
				if ch, ok := x.V.(*ChoiceV); ok {
					return smt.Ite(ch.C, walk(&IfaceV{T: x.T, V: ch.A}), walk(&IfaceV{T: x.T, V: ch.B}))
				}
				if op, ok := x.V.(*Opaque); ok {
					if d, ok := op.Data[field].(*smt.Term); ok {
						return d
					}
					if w, ok := op.Data["wrapped"]; ok {
						return walk(w)
					}
				}
			}
			return smt.False
		}
		is = walk(args[0])
		de := ex.newOpaque(tag)
		ex.guarded(st, is, func(st *State) { ex.store(st, site, tp, de) })
		return is
	}
	for _, m := range []string{"String", "Error", "Errors"} {
		m := m
		S["(*github.com/pelletier/go-toml/v2.StrictMissingError)."+m] = func(ex *Exec, st *State, site ssa.Instruction, fn *ssa.Function, args []Value) Value {
			return ex.withChoice(st, args[0], func(st *State, r Value) Value {
				if _, isNil := r.(*NilV); isNil {
					ex.panicOutcome(st, "nil pointer dereference (method "+m+" of a nil *toml.StrictMissingError)", site, st.pc)
					st.kill()
					return nil
				}
				if m == "Errors" {
					return ex.zeroResult(fn)
				}
				return ConcreteStr("<strict missing error>")
			})
		}
	}
	for _, m := range []string{"Position", "Key", "String", "Error"} {
		m := m
		S["(*github.com/pelletier/go-toml/v2.DecodeError)."+m] = func(ex *Exec, st *State, site ssa.Instruction, fn *ssa.Function, args []Value) Value {
			return ex.withChoice(st, args[0], func(st *State, r Value) Value {
				if _, isNil := r.(*NilV); isNil {
					ex.panicOutcome(st, "nil pointer dereference (method "+m+" of a nil *toml.DecodeError)", site, st.pc)
					st.kill()
					return nil
				}
				return ex.zeroResult(fn)
			})
		}
	}
	S["(*github.com/pelletier/go-toml/v2.Decoder).Decode"] = func(ex *Exec, st *State, site ssa.Instruction, fn *ssa.Function, args []Value) Value {
		if d, ok := args[0].(*Opaque); ok && len(ex.DecodedList) > 0 {
			if data, ok := d.Data["bytes"].(*SliceV); ok {
				return decodeTokens(ex, st, site, data, args[1])
			}
		}
		return decode(ex, st, site, args[1])
	}
	S["github.com/pelletier/go-toml/v2.Unmarshal"] = func(ex *Exec, st *State, site ssa.Instruction, fn *ssa.Function, args []Value) Value {
		if data, ok := args[0].(*SliceV); ok && len(ex.DecodedList) > 0 {
			return decodeTokens(ex, st, site, data, args[1])
		}
		return decode(ex, st, site, args[1])
	}
	S["os.ReadFile"] = func(ex *Exec, st *State, site ssa.Instruction, fn *ssa.Function, args []Value) Value {
		fail := ex.freshBool("readfile_fails")
		data := ex.strToBytes(st, ConcreteStr("<file>"))
		return &TupleV{E: []Value{mergeV(fail, Value(&SliceV{Obj: 0, Len: bv64(0)}), data), mergeV(fail, &IfaceV{T: nil, V: ex.newOpaque("error")}, Nil)}}
	}
}

// sync.Map: an association list addressed by the map's address (interface-typed keys and values).
func (ex *Exec) syncMapObj(st *State, p Value) int {
	ptr, ok := p.(*PtrV)
	if !ok {
		panic(unsupported("sync.Map addressed by " + describe(p)))
	}
	key := fmt.Sprintf("syncmap:%d:%v", ptr.Obj, ptr.Path)
	if ex.syncIDs == nil {
		ex.syncIDs = map[string]int{}
	}
	id, ok := ex.syncIDs[key]
	if !ok {
		id = ex.nextObj
		ex.nextObj++
		ex.syncIDs[key] = id
	}
	if _, ok := st.heap[id]; !ok {
		st.heap[id] = &MapC{}
	}
	return id
}

func registerSyncMapStubs(ex *Exec) {
	S := ex.Stubs
	anyT := types.NewInterfaceType(nil, nil)
	mt := types.NewMap(anyT, anyT)
	S["(*sync.Map).Load"] = func(ex *Exec, st *State, site ssa.Instruction, fn *ssa.Function, args []Value) Value {
		id := ex.syncMapObj(st, args[0])
		v, ok := ex.mapLookup(st, &MapV{Obj: id}, args[1], mt)
		return &TupleV{E: []Value{v, ok}}
	}
	S["(*sync.Map).Store"] = func(ex *Exec, st *State, site ssa.Instruction, fn *ssa.Function, args []Value) Value {
		id := ex.syncMapObj(st, args[0])
		ex.mapUpdate(st, site, &MapV{Obj: id}, args[1], args[2])
		return nil
	}
	S["(*sync.Map).Delete"] = func(ex *Exec, st *State, site ssa.Instruction, fn *ssa.Function, args []Value) Value {
		id := ex.syncMapObj(st, args[0])
		ex.mapDelete(st, &MapV{Obj: id}, args[1])
		return nil
	}
	S["(*sync.Map).LoadOrStore"] = func(ex *Exec, st *State, site ssa.Instruction, fn *ssa.Function, args []Value) Value {
		id := ex.syncMapObj(st, args[0])
		v, ok := ex.mapLookup(st, &MapV{Obj: id}, args[1], mt)
		ex.guarded(st, smt.Not(ok), func(st *State) { ex.mapUpdate(st, site, &MapV{Obj: id}, args[1], args[2]) })
		return &TupleV{E: []Value{mergeV(ok, v, args[2]), ok}}
	}
}

// uf returns fresh float64 results for an external pure function; the same argument terms give the same results
// (syntactic congruence, enough because code and oracle build identical argument terms).
func (ex *Exec) uf(name string, args []Value, nres int) []Value {
	key := name
	for _, a := range args {
		key += ":" + keyIdent(a)
	}
	if ex.ufMemo == nil {
		ex.ufMemo = map[string][]Value{}
	}
	if r, ok := ex.ufMemo[key]; ok {
		return r
	}
	r := make([]Value, nres)
	for i := range r {
		ex.opaqueSeq++
		r[i] = smt.FFromBits(ex.NondetVar(fmt.Sprintf("env_uf_%s_%d", name, ex.opaqueSeq), smt.BV(64)))
	}
	ex.ufMemo[key] = r
	return r
}

func registerLedStubs(ex *Exec) {
	S := ex.Stubs
	var ledUpdate func(ex *Exec, st *State, site ssa.Instruction, cv Value) Value
	// colour-space functions: evaluated with the real library on concrete arguments, uninterpreted otherwise
	concF := func(vs []Value) ([]float64, bool) {
		out := make([]float64, len(vs))
		for i, v := range vs {
			t, ok := v.(*smt.Term)
			if !ok || !t.IsConst() {
				return nil, false
			}
			out[i] = t.Float()
		}
		return out, true
	}
	// split evaluates f on every combination of the constant leaves of ite-tree arguments
	var split func(name string, args []Value, nres int, f func([]float64) []float64, depth int) []Value
	split = func(name string, args []Value, nres int, f func([]float64) []float64, depth int) []Value {
		if fl, ok := concF(args); ok {
			r := f(fl)
			out := make([]Value, len(r))
			for i, x := range r {
				out[i] = smt.FConst(x)
			}
			return out
		}
		if depth < 40 {
			for _, a := range args {
				t, ok := a.(*smt.Term)
				if ok && t.Op == smt.OIte {
					// split jointly: every argument guarded by the same condition follows the same branch
					a1 := append([]Value(nil), args...)
					a2 := append([]Value(nil), args...)
					for j, b := range args {
						if u, ok := b.(*smt.Term); ok && u.Op == smt.OIte && u.A[0] == t.A[0] {
							a1[j], a2[j] = u.A[1], u.A[2]
						}
					}
					r1 := split(name, a1, nres, f, depth+1)
					r2 := split(name, a2, nres, f, depth+1)
					out := make([]Value, nres)
					for k := range out {
						out[k] = smt.Ite(t.A[0], r1[k].(*smt.Term), r2[k].(*smt.Term))
					}
					return out
				}
			}
		}
		return ex.uf(name, args, nres)
	}
	S["github.com/lucasb-eyer/go-colorful.Hsv"] = func(ex *Exec, st *State, site ssa.Instruction, fn *ssa.Function, args []Value) Value {
		return &StructV{F: split("colorful.Hsv", args, 3, func(f []float64) []float64 {
			c := colorful.Hsv(f[0], f[1], f[2])
			return []float64{c.R, c.G, c.B}
		}, 0)}
	}
	S["(github.com/lucasb-eyer/go-colorful.Color).Hsv"] = func(ex *Exec, st *State, site ssa.Instruction, fn *ssa.Function, args []Value) Value {
		return &TupleV{E: split("Color.Hsv", args[0].(*StructV).F, 3, func(f []float64) []float64 {
			h, sv, v := colorful.Color{R: f[0], G: f[1], B: f[2]}.Hsv()
			return []float64{h, sv, v}
		}, 0)}
	}
	S["math.Mod"] = func(ex *Exec, st *State, site ssa.Instruction, fn *ssa.Function, args []Value) Value {
		return split("math.Mod", args, 1, func(f []float64) []float64 { return []float64{math.Mod(f[0], f[1])} }, 0)[0]
	}
	// the controller the (stubbed) OpenRGB server reports: supplied by the harness
	S["flag:led:github.com/gethiox/HIDI/internal/pkg/midi/device.findController"] = func(ex *Exec, st *State, site ssa.Instruction, fn *ssa.Function, args []Value) Value {
		dev := ex.load(st, site, ex.LedDevice.(*PtrV))
		return &TupleV{E: []Value{dev, bv64(0), Nil}}
	}
	S["(*github.com/realbucksavage/openrgb-go.Client).UpdateLEDs"] = func(ex *Exec, st *State, site ssa.Instruction, fn *ssa.Function, args []Value) Value {
		return ex.withChoice(st, args[2], func(st *State, cv Value) Value {
			return ledUpdate(ex, st, site, cv)
		})
	}
	ledUpdate = func(ex *Exec, st *State, site ssa.Instruction, cv Value) Value {
		// record the frame in the harness's capture {N int; Frames [4][]Color}; end the loop after the first frame
		cp := ex.LedCapture.(*PtrV)
		cap := ex.load(st, site, cp).(*StructV)
		n := cap.F[0].(*smt.Term)
		if !n.IsConst() {
			panic(unsupported("LED capture with a symbolic frame count"))
		}
		colors := cv.(*SliceV)
		el := ex.sliceElems(st, colors)
		id := ex.newObj(st, &ArrayV{E: append([]Value(nil), el...)})
		snap := &SliceV{Obj: id, Len: colors.Len, Cap: len(el), MaxLen: len(el)}
		frs := cap.F[1].(*ArrayV)
		e := append([]Value(nil), frs.E...)
		if int(n.V) < len(e) {
			e[n.V] = snap
		}
		st.heap[cp.Obj] = ex.setPath(ex.get(st, cp.Obj), cp.Path, &StructV{F: []Value{bv64(int64(n.V + 1)), &ArrayV{E: e}, snap}})
		frames := 1
		if v, ok := ex.Params["FRAMES"]; ok && v > 0 {
			frames = v
		}
		if int(n.V)+1 == frames && ex.LedCancel != nil {
			ex.applyFuncValue(st, site, ex.LedCancel, nil, 1)
		}
		if ex.Flags["led.fail"] {
			// the server or its connection may have gone away: any update may fail
			return mergeV(ex.freshBool("led_update_fails"), Value(&IfaceV{T: nil, V: ex.newOpaque("error")}), Value(Nil))
		}
		return Nil
	}
}

// lockOrder (flag "locks"): whenever mutex m is taken while another mutex h is held, the pair (h before m) is
// remembered; taking them in the opposite order anywhere later in the run is a potential deadlock between the
// goroutines that run these code paths concurrently in the application (lock-order inversion).
func (ex *Exec) lockOrder(st *State, site ssa.Instruction, m Value) {
	p, ok := m.(*PtrV)
	if !ok {
		return
	}
	mc := ex.syncCell(st, p, "mutex")
	seen := false
	for _, c := range ex.lockCells {
		if c == mc {
			seen = true
		}
	}
	if !seen {
		ex.lockCells = append(ex.lockCells, mc)
	}
	for _, h := range ex.lockCells {
		if h == mc {
			continue
		}
		cur, ok := st.heap[h].(*smt.Term)
		if !ok {
			continue
		}
		held := smt.Not(smt.Eq(cur, bv64(0)))
		if held.IsFalse() {
			continue
		}
		if where, inv := ex.lockPairs[[2]int{mc, h}]; inv {
			ex.outcome("assert", "C16: two mutexes are always taken in the same order (here the opposite of "+where+"): goroutines taking them in opposite orders can deadlock", site, smt.And(st.pc, held))
		}
		if ex.lockPairs == nil {
			ex.lockPairs = map[[2]int]string{}
		}
		if _, ok := ex.lockPairs[[2]int{h, mc}]; !ok {
			pos := ""
			if site != nil {
				q := ex.Prog.Fset.Position(site.Pos())
				pos = fmt.Sprintf("%s:%d", shortFile(q.Filename), q.Line)
			}
			ex.lockPairs[[2]int{h, mc}] = pos
		}
	}
}
