package symex

import (
	"fmt"
	"go/token"
	"go/types"
	"strings"

	"golang.org/x/tools/go/ssa"
	"verif/engine/smt"
)

// E2: goroutines as resumable continuations, schedule symbolic.
//
// A harness spawns goroutines with ordinary `go` statements and then calls verifrt.RunConcurrent(K, monitor).
// Every goroutine is kept as a set of alternatives (guard, continuation); a continuation is a stack of frames
// stopped at a *blocking* operation (send, receive, select, Mutex.Lock, WaitGroup.Wait). Step i has a symbolic
// scheduler variable sched_i: for every goroutine g and alternative a, under (sched_i = g ∧ guard_a ∧ enabled) the
// blocking operation is performed and the code runs (path by path, no merging inside the segment) up to the next
// blocking operations; all resulting states are merged by ite, the untaken remainder keeps its continuation
// (stutter is always possible). Always-enabled synchronisation effects (Unlock, Done, Add, close, cancel) are
// executed inline. The property monitor runs after every step.

type gframe struct {
	fn     *ssa.Function
	regs   map[ssa.Value]Value
	blk    *ssa.BasicBlock
	idx    int
	defers []*deferEntry
	callee ssa.Value // in the CALLER frame: the call instruction waiting for the result of the frame above
}

type cont struct {
	frames []*gframe
}

type galt struct {
	guard *smt.Term
	c     *cont // nil = terminated
}

type goroutine struct {
	id   int
	name string
	alts []galt
}

type sched struct {
	gs      []*goroutine
	step    int
	nextSel int
	// per-step summaries for the monitor intrinsics
	anyEnabled *smt.Term
}

func (c *cont) clone() *cont {
	if c == nil {
		return nil
	}
	n := &cont{frames: make([]*gframe, len(c.frames))}
	for i, f := range c.frames {
		g := &gframe{fn: f.fn, regs: make(map[ssa.Value]Value, len(f.regs)+4), blk: f.blk, idx: f.idx, callee: f.callee}
		for k, v := range f.regs {
			g.regs[k] = v
		}
		g.defers = append([]*deferEntry(nil), f.defers...)
		n.frames[i] = g
	}
	return n
}

func (c *cont) shape() string {
	if c == nil {
		return "done"
	}
	var sb strings.Builder
	for _, f := range c.frames {
		fmt.Fprintf(&sb, "%p:%d:%d:%d|", f.fn, f.blk.Index, f.idx, len(f.defers))
	}
	return sb.String()
}

func (c *cont) top() *gframe { return c.frames[len(c.frames)-1] }

// tmpFrame adapts a gframe to the Frame type used by the sequential step function.
func (g *gframe) asFrame() *Frame {
	return &Frame{fn: g.fn, regs: g.regs, defers: g.defers, visits: map[*ssa.BasicBlock]int{}, depth: 1}
}

// ---- synchronisation state ----

func (ex *Exec) syncCell(st *State, p Value, kind string) int {
	ptr, ok := p.(*PtrV)
	if !ok {
		panic(unsupported("synchronisation object is not addressed by a plain pointer: " + describe(p)))
	}
	key := fmt.Sprintf("%s:%d:%v", kind, ptr.Obj, ptr.Path)
	if ex.syncIDs == nil {
		ex.syncIDs = map[string]int{}
	}
	id, ok := ex.syncIDs[key]
	if !ok {
		id = ex.nextObj
		ex.nextObj++
		ex.syncIDs[key] = id
	}
	if _, ok := st.heap[id]; !ok {
		st.heap[id] = bv64(0)
	}
	return id
}

func isSyncCall(c *ssa.CallCommon) string {
	if f, ok := c.Value.(*ssa.Function); ok {
		switch fnName(f) {
		case "(*sync.Mutex).Lock":
			return "lock"
		case "(*sync.Mutex).Unlock":
			return "unlock"
		case "(*sync.WaitGroup).Wait":
			return "wait"
		case "(*sync.WaitGroup).Add":
			return "add"
		case "(*sync.WaitGroup).Done":
			return "done"
		}
	}
	return ""
}

// blockingOp classifies the instruction a continuation is stopped at.
func blockingOp(instr ssa.Instruction) string {
	switch in := instr.(type) {
	case *ssa.Send:
		return "send"
	case *ssa.UnOp:
		if in.Op == token.ARROW {
			return "recv"
		}
	case *ssa.Select:
		return "select"
	case *ssa.Call:
		switch isSyncCall(&in.Call) {
		case "lock":
			return "lock"
		case "wait":
			return "wait"
		}
	}
	return ""
}

func (ex *Exec) chanReady(st *State, c Value, send bool) *smt.Term {
	switch cv := c.(type) {
	case *ChanV:
		cc := ex.get(st, cv.Obj).(*ChanC)
		n := ex.chanLen(st, cv)
		if send {
			if cc.Cap == 0 {
				// unbuffered: the send can proceed only while a receiver is parked on this channel; the value waits
				// in a single slot until that receiver's own step takes it
				return smt.Or(cc.Closed, smt.And(smt.Eq(n, bv64(0)), ex.recvWaiting(st, cv.Obj)))
			}
			return smt.Or(cc.Closed, smt.Ult(n, bv64(int64(cc.Cap))))
		}
		return smt.Or(cc.Closed, smt.Not(smt.Eq(n, bv64(0))))
	case *NilV:
		return smt.False
	case *ChoiceV:
		return smt.Ite(cv.C, ex.chanReady(st, cv.A, send), ex.chanReady(st, cv.B, send))
	}
	panic(unsupported("channel readiness of " + describe(c)))
}

// enabled returns the condition under which the blocking operation at the top of c can proceed.
func (ex *Exec) enabled(st *State, c *cont) *smt.Term {
	f := c.top()
	fr := f.asFrame()
	instr := f.blk.Instrs[f.idx]
	if _, ok := instr.(*ssa.RunDefers); ok {
		return smt.True
	}
	switch in := instr.(type) {
	case *ssa.Send:
		return ex.chanReady(st, ex.val(fr, in.Chan), true)
	case *ssa.UnOp:
		if in.Op != token.ARROW {
			return smt.True
		}
		return ex.chanReady(st, ex.val(fr, in.X), false)
	case *ssa.Select:
		if !in.Blocking {
			return smt.True
		}
		r := smt.False
		for _, s := range in.States {
			r = smt.Or(r, ex.chanReady(st, ex.val(fr, s.Chan), s.Dir == types.SendOnly))
		}
		return r
	case *ssa.Call:
		switch isSyncCall(&in.Call) {
		case "lock":
			return smt.Eq(ex.syncRead(st, ex.val(fr, in.Call.Args[0]), "mutex"), bv64(0))
		case "wait":
			return smt.Eq(ex.syncRead(st, ex.val(fr, in.Call.Args[0]), "wg"), bv64(0))
		}
	}
	return smt.True
}

type segResult struct {
	st      *State
	rel     *smt.Term // condition of this path relative to the state the step started from
	c       *cont
	spawned []*cont
}

const segInstrLimit = 20000

// explore runs one goroutine from its continuation until every path stops at a blocking operation or ends.
func (ex *Exec) explore(st *State, rel *smt.Term, c *cont, first bool, spawned []*cont, out *[]segResult, budget *int) {
	for {
		if st.dead {
			return
		}
		if len(c.frames) == 0 {
			*out = append(*out, segResult{st: st, rel: rel, c: nil, spawned: spawned})
			return
		}
		f := c.top()
		if f.idx >= len(f.blk.Instrs) {
			panic(unsupported("fell off a block in " + f.fn.String()))
		}
		instr := f.blk.Instrs[f.idx]
		*budget--
		if *budget < 0 {
			panic(unsupported("segment instruction budget exceeded in " + f.fn.String()))
		}
		ex.Instrs++
		if ex.Instrs&1023 == 0 {
			checkResources()
		}
		fr := f.asFrame()
		if op := blockingOp(instr); op != "" && !first && !(op == "send" && ex.sendNeverBlocks(st, fr, instr.(*ssa.Send))) {
			*out = append(*out, segResult{st: st, rel: rel, c: c, spawned: spawned})
			return
		}
		wasFirst := first
		first = false
		switch in := instr.(type) {
		case *ssa.Phi:
			f.idx++
		case *ssa.Jump:
			ex.gotoBlock(f, fr, f.blk.Succs[0])
		case *ssa.If:
			cnd := ex.val(fr, in.Cond).(*smt.Term)
			if cnd.IsTrue() {
				ex.gotoBlock(f, fr, f.blk.Succs[0])
				continue
			}
			if cnd.IsFalse() {
				ex.gotoBlock(f, fr, f.blk.Succs[1])
				continue
			}
			ex.Forks++
			s1 := st.fork(cnd)
			if !s1.dead {
				c1 := c.clone()
				f1 := c1.top()
				ex.gotoBlock(f1, f1.asFrame(), f1.blk.Succs[0])
				ex.explore(s1, smt.And(rel, cnd), c1, false, append([]*cont(nil), spawned...), out, budget)
			}
			st.assume(smt.Not(cnd))
			rel = smt.And(rel, smt.Not(cnd))
			ex.gotoBlock(f, fr, f.blk.Succs[1])
		case *ssa.Return:
			var ret Value
			switch len(in.Results) {
			case 0:
			case 1:
				ret = ex.val(fr, in.Results[0])
			default:
				e := make([]Value, len(in.Results))
				for i, r := range in.Results {
					e[i] = ex.val(fr, r)
				}
				ret = &TupleV{E: e}
			}
			c.frames = c.frames[:len(c.frames)-1]
			if len(c.frames) > 0 {
				caller := c.top()
				if caller.callee != nil && ret != nil {
					caller.regs[caller.callee] = ret
				}
				caller.callee = nil
				caller.idx++
			}
		case *ssa.Panic:
			ex.outcome("panic", "explicit panic in goroutine", in, st.pc)
			st.kill()
			return
		case *ssa.RunDefers:
			if len(f.defers) == 0 {
				f.idx++
				continue
			}
			d := f.defers[len(f.defers)-1]
			f.defers = f.defers[:len(f.defers)-1]
			if !d.G.IsTrue() {
				panic(unsupported("conditionally registered defer in a goroutine"))
			}
			ex.runDeferredE2(st, f, fr, in, d)
		case *ssa.Defer:
			ex.step(st, fr, instr)
			f.defers = fr.defers
			f.idx++
		case *ssa.Go:
			nc := ex.spawnCont(fr, &in.Call)
			spawned = append(spawned, nc)
			f.idx++
		case *ssa.Send:
			// wasFirst: the scheduler established that the channel is ready
			ch := ex.val(fr, in.Chan)
			v := ex.val(fr, in.X)
			ex.withChoice(st, ch, func(st *State, cv Value) Value { ex.chanSend(st, in, cv, v); return nil })
			f.idx++
		case *ssa.Select:
			ex.doSelect(st, &rel, c, f, fr, in, spawned, out, budget)
			return
		case *ssa.Call:
			_ = wasFirst
			if ex.callE2(st, c, f, fr, in) {
				continue
			}
			f.idx++
		default:
			ex.step(st, fr, instr)
			f.idx++
		}
	}
}

func (ex *Exec) gotoBlock(f *gframe, fr *Frame, b *ssa.BasicBlock) {
	ex.evalPhis(fr, b, f.blk)
	f.blk = b
	f.idx = 0
	for f.idx < len(b.Instrs) {
		if _, ok := b.Instrs[f.idx].(*ssa.Phi); !ok {
			break
		}
		f.idx++
	}
}

func (ex *Exec) spawnCont(fr *Frame, c *ssa.CallCommon) *cont {
	var fn *ssa.Function
	var bind []Value
	args := []Value{}
	switch v := c.Value.(type) {
	case *ssa.Function:
		fn = v
	case *ssa.MakeClosure:
		fv := ex.val(fr, v).(*FuncV)
		fn, bind = fv.Fn, fv.Bind
	default:
		if c.IsInvoke() {
			panic(unsupported("go statement on an interface method"))
		}
		fv, ok := ex.val(fr, c.Value).(*FuncV)
		if !ok {
			panic(unsupported("go statement on a dynamic function value"))
		}
		fn, bind = fv.Fn, fv.Bind
	}
	for _, a := range c.Args {
		args = append(args, ex.val(fr, a))
	}
	return ex.entryCont(fn, args, bind)
}

func (ex *Exec) entryCont(fn *ssa.Function, args, bind []Value) *cont {
	if fn.Blocks == nil {
		panic(unsupported("goroutine body without source: " + fn.String()))
	}
	ex.Encoded[fnName(fn)] = true
	g := &gframe{fn: fn, regs: map[ssa.Value]Value{}, blk: fn.Blocks[0]}
	for i, p := range fn.Params {
		g.regs[p] = args[i]
	}
	for i, fv := range fn.FreeVars {
		g.regs[fv] = bind[i]
	}
	return &cont{frames: []*gframe{g}}
}

// callE2 handles a call inside a goroutine: synchronisation effects inline, code under test by pushing a frame,
// everything else atomically through the sequential executor. Returns true if a frame was pushed.
func (ex *Exec) callE2(st *State, c *cont, f *gframe, fr *Frame, in *ssa.Call) bool {
	call := &in.Call
	switch isSyncCall(call) {
	case "lock":
		g := bv64(int64(ex.curG + 1))
		ex.syncWrite(st, ex.val(fr, call.Args[0]), "mutex", func(*smt.Term) *smt.Term { return g })
		return false
	case "unlock":
		p := ex.val(fr, call.Args[0])
		ex.implicitPanic(st, in, "unlock of unlocked mutex", smt.Eq(ex.syncRead(st, p, "mutex"), bv64(0)))
		ex.syncWrite(st, p, "mutex", func(*smt.Term) *smt.Term { return bv64(0) })
		return false
	case "wait":
		return false
	case "add":
		d := ex.val(fr, call.Args[1]).(*smt.Term)
		ex.syncWrite(st, ex.val(fr, call.Args[0]), "wg", func(o *smt.Term) *smt.Term { return smt.Add(o, d) })
		return false
	case "done":
		ex.syncWrite(st, ex.val(fr, call.Args[0]), "wg", func(o *smt.Term) *smt.Term { return smt.Sub(o, bv64(1)) })
		return false
	}
	// resolve the callee
	var fn *ssa.Function
	var bind []Value
	var args []Value
	if call.IsInvoke() {
		recv := ex.val(fr, call.Value)
		if iv, ok := recv.(*IfaceV); ok && iv.T != nil {
			if sel := ex.Prog.MethodSets.MethodSet(iv.T).Lookup(call.Method.Pkg(), call.Method.Name()); sel != nil {
				fn = ex.Prog.MethodValue(sel)
				args = append(args, iv.V)
			}
		}
	} else {
		switch v := call.Value.(type) {
		case *ssa.Function:
			fn = v
		case *ssa.Builtin:
		default:
			if fv, ok := ex.val(fr, call.Value).(*FuncV); ok {
				fn, bind = fv.Fn, fv.Bind
			}
		}
	}
	flagStub := false
	if fn != nil {
		for fl := range ex.Flags {
			if _, ok := ex.Stubs["flag:"+fl+":"+fnName(fn)]; ok {
				flagStub = true
			}
		}
	}
	if fn != nil && fn.Blocks != nil && !flagStub && ex.Stubs[fnName(fn)] == nil && ex.prefixStub(fn, fnName(fn)) == nil && (ex.isUnderTest(fn) || isSyntheticWrapper(fn)) {
		for _, a := range call.Args {
			args = append(args, ex.val(fr, a))
		}
		ex.Encoded[fnName(fn)] = true
		g := &gframe{fn: fn, regs: map[ssa.Value]Value{}, blk: fn.Blocks[0]}
		if len(args) != len(fn.Params) {
			panic(unsupported("arity mismatch calling " + fn.String() + " in a goroutine"))
		}
		for i, p := range fn.Params {
			g.regs[p] = args[i]
		}
		for i, fv := range fn.FreeVars {
			g.regs[fv] = bind[i]
		}
		if in.Type() != nil {
			if tup, ok := in.Type().(*types.Tuple); !ok || tup.Len() > 0 {
				f.callee = in
			}
		}
		c.frames = append(c.frames, g)
		return true
	}
	// atomic: stubs, builtins, external code, function values without body
	ex.step(st, fr, in)
	return false
}

func (ex *Exec) runDeferredE2(st *State, f *gframe, fr *Frame, site ssa.Instruction, d *deferEntry) {
	switch isSyncCall(d.Call) {
	case "unlock":
		ex.implicitPanic(st, site, "unlock of unlocked mutex", smt.Eq(ex.syncRead(st, d.Args[0], "mutex"), bv64(0)))
		ex.syncWrite(st, d.Args[0], "mutex", func(*smt.Term) *smt.Term { return bv64(0) })
		return
	case "done":
		ex.syncWrite(st, d.Args[0], "wg", func(o *smt.Term) *smt.Term { return smt.Sub(o, bv64(1)) })
		return
	case "lock", "wait":
		panic(unsupported("deferred blocking call"))
	}
	// other deferred calls (close, Close methods, …) run atomically
	ex.runDeferred(st, fr, site, d)
}

// doSelect performs a select whose readiness was established by the scheduler: one path per ready case.
func (ex *Exec) doSelect(st *State, rel **smt.Term, c *cont, f *gframe, fr *Frame, in *ssa.Select, spawned []*cont, out *[]segResult, budget *int) {
	n := len(in.States)
	ready := make([]*smt.Term, n)
	anyReady := smt.False
	for i, s := range in.States {
		ready[i] = ex.chanReady(st, ex.val(fr, s.Chan), s.Dir == types.SendOnly)
		anyReady = smt.Or(anyReady, ready[i])
	}
	// which ready case is taken is a nondeterministic choice of the runtime
	ex.opaqueSeq++
	pick := ex.NondetVar(fmt.Sprintf("env_select_%d", ex.opaqueSeq), smt.BV(8))
	tup := in.Type().(*types.Tuple)
	mkResult := func(idx int, recvOk *smt.Term, vals []Value) Value {
		e := []Value{bv64(int64(idx)), recvOk}
		k := 0
		for _, s := range in.States {
			if s.Dir == types.RecvOnly {
				e = append(e, vals[k])
				k++
			}
		}
		_ = tup
		return &TupleV{E: e}
	}
	zeroVals := func() []Value {
		var v []Value
		for i, s := range in.States {
			if s.Dir == types.RecvOnly {
				_ = i
				v = append(v, ex.zero(s.Chan.Type().Underlying().(*types.Chan).Elem()))
			}
		}
		return v
	}
	for i, s := range in.States {
		cnd := smt.And(ready[i], smt.Eq(pick, smt.Const(8, uint64(i))))
		if cnd.IsFalse() {
			continue
		}
		si := st.fork(cnd)
		if si.dead {
			continue
		}
		ci := c.clone()
		fi := ci.top()
		fri := fi.asFrame()
		vals := zeroVals()
		recvOk := smt.False
		if s.Dir == types.RecvOnly {
			ch := ex.val(fri, s.Chan)
			et := s.Chan.Type().Underlying().(*types.Chan).Elem()
			rt := types.NewTuple(types.NewVar(token.NoPos, nil, "", et), types.NewVar(token.NoPos, nil, "", types.Typ[types.Bool]))
			r := ex.withChoice(si, ch, func(st *State, cv Value) Value { return ex.chanRecv(st, in, cv, true, rt) })
			if si.dead {
				continue
			}
			t := r.(*TupleV)
			k := 0
			for j, s2 := range in.States {
				if s2.Dir == types.RecvOnly {
					if j == i {
						vals[k] = t.E[0]
					}
					k++
				}
			}
			recvOk = t.E[1].(*smt.Term)
		} else {
			ch := ex.val(fri, s.Chan)
			v := ex.val(fri, s.Send)
			ex.withChoice(si, ch, func(st *State, cv Value) Value { ex.chanSend(st, in, cv, v); return nil })
		}
		fi.regs[in] = mkResult(i, recvOk, vals)
		fi.idx++
		ex.explore(si, smt.And(*rel, cnd), ci, false, append([]*cont(nil), spawned...), out, budget)
	}
	if !in.Blocking {
		cnd := smt.Not(anyReady)
		sd := st.fork(cnd)
		if !sd.dead {
			cd := c.clone()
			fd := cd.top()
			fd.regs[in] = mkResult(-1, smt.False, zeroVals())
			fd.idx++
			ex.explore(sd, smt.And(*rel, cnd), cd, false, append([]*cont(nil), spawned...), out, budget)
		}
	}
}

// ---- the scheduler ----

func mergeConts(g *smt.Term, a, b *cont) *cont {
	// same shape: merge registers
	n := &cont{frames: make([]*gframe, len(a.frames))}
	for i := range a.frames {
		fa, fb := a.frames[i], b.frames[i]
		m := &gframe{fn: fa.fn, blk: fa.blk, idx: fa.idx, callee: fa.callee, defers: fa.defers, regs: make(map[ssa.Value]Value, len(fa.regs))}
		for k, va := range fa.regs {
			if vb, ok := fb.regs[k]; ok {
				if va == vb {
					m.regs[k] = va
				} else {
					m.regs[k] = mergeV(g, va, vb)
				}
			}
		}
		n.frames[i] = m
	}
	return n
}

func normalizeAlts(alts []galt) []galt {
	var out []galt
	idx := map[string]int{}
	for _, a := range alts {
		if a.guard.IsFalse() {
			continue
		}
		sh := a.c.shape()
		if j, ok := idx[sh]; ok {
			if a.c != nil {
				out[j].c = mergeConts(a.guard, a.c, out[j].c)
			}
			out[j].guard = smt.Or(out[j].guard, a.guard)
			continue
		}
		idx[sh] = len(out)
		out = append(out, a)
	}
	return out
}

// RunConcurrent unrolls K scheduler steps over the goroutines spawned so far; monitor (a closure value, may be nil)
// is executed after every step in the merged state.
func (ex *Exec) RunConcurrent(st *State, site ssa.Instruction, K int, monitor Value) {
	sc := ex.sched
	if sc == nil || len(sc.gs) == 0 {
		panic(unsupported("RunConcurrent without spawned goroutines"))
	}
	for step := 0; step < K; step++ {
		sc.step = step
		sv := ex.NondetVar(fmt.Sprintf("sched_%d", step), smt.BV(8))
		type branch struct {
			st  *State
			rel *smt.Term
		}
		var branches []branch
		taken := smt.False
		anyEnabled := smt.False
		ng := len(sc.gs)
		newAlts := make([][]galt, ng)
		var newGs []*goroutine
		for gi := 0; gi < ng; gi++ {
			g := sc.gs[gi]
			for _, a := range g.alts {
				if a.c == nil {
					newAlts[gi] = append(newAlts[gi], a)
					continue
				}
				en := ex.enabled(st, a.c)
				anyEnabled = smt.Or(anyEnabled, smt.And(a.guard, en))
				cnd := smt.AndN(smt.Eq(sv, smt.Const(8, uint64(g.id))), a.guard, en)
				if cnd.IsFalse() {
					newAlts[gi] = append(newAlts[gi], a)
					continue
				}
				s := st.fork(cnd)
				if s.dead {
					newAlts[gi] = append(newAlts[gi], a)
					continue
				}
				var results []segResult
				budget := segInstrLimit
				ex.curG = g.id + 1
				ex.explore(s, cnd, a.c.clone(), true, nil, &results, &budget)
				ex.curG = 0
				done := smt.False
				for _, r := range results {
					if r.st.dead {
						continue
					}
					branches = append(branches, branch{r.st, r.rel})
					newAlts[gi] = append(newAlts[gi], galt{guard: r.rel, c: r.c})
					done = smt.Or(done, r.rel)
					for _, nc := range r.spawned {
						ng2 := &goroutine{id: len(sc.gs) + len(newGs), name: nc.top().fn.String(), alts: []galt{{guard: r.rel, c: nc}}}
						newGs = append(newGs, ng2)
					}
				}
				// paths that died (panics) are excluded by the path condition; the rest of the alternative stays put
				taken = smt.Or(taken, cnd)
				newAlts[gi] = append(newAlts[gi], galt{guard: smt.And(a.guard, smt.Not(cnd)), c: a.c})
			}
		}
		// merge: stutter state (nothing taken) is st restricted to ¬taken
		acc := st.fork(smt.Not(taken))
		for _, b := range branches {
			dst := &State{}
			mergeStates(dst, b.rel, b.st, acc)
			acc = dst
		}
		*st = *acc
		for gi := 0; gi < ng; gi++ {
			sc.gs[gi].alts = normalizeAlts(newAlts[gi])
		}
		sc.gs = append(sc.gs, newGs...)
		if len(sc.gs) > 200 {
			panic(unsupported("too many goroutines"))
		}
		sc.anyEnabled = anyEnabled
		if ex.Trace {
			na := 0
			for _, g := range sc.gs {
				na += len(g.alts)
			}
			println("E2 step", step, "goroutines", len(sc.gs), "alts", na, "branches", len(branches), "terms", smt.NumTerms, "heap", len(st.heap), "ite", smt.NumByOp[smt.OIte], "and", smt.NumByOp[smt.OAnd], "or", smt.NumByOp[smt.OOr], "eq", smt.NumByOp[smt.OEq], "add", smt.NumByOp[smt.OAdd], "not", smt.NumByOp[smt.ONot])
		}
		if monitor != nil {
			if _, isNil := monitor.(*NilV); !isNil {
				ex.applyFuncValue(st, site, monitor, nil, 1)
			}
		}
		if st.dead {
			return
		}
	}
	// final enabledness for the intrinsics evaluated after the run
	anyEnabled := smt.False
	for _, g := range sc.gs {
		for _, a := range g.alts {
			if a.c != nil {
				anyEnabled = smt.Or(anyEnabled, smt.And(a.guard, ex.enabled(st, a.c)))
			}
		}
	}
	sc.anyEnabled = anyEnabled
}

// goroutineQuery answers the monitor intrinsics.
func (ex *Exec) goroutineQuery(st *State, what, substr string) *smt.Term {
	sc := ex.sched
	if sc == nil {
		return smt.False
	}
	r := smt.False
	switch what {
	case "AnyEnabled":
		any := smt.False
		for _, g := range sc.gs {
			for _, a := range g.alts {
				if a.c != nil {
					any = smt.Or(any, smt.And(a.guard, ex.enabled(st, a.c)))
				}
			}
		}
		return any
	case "Live": // some goroutine running a function whose name contains substr has not terminated
		for _, g := range sc.gs {
			for _, a := range g.alts {
				if a.c == nil {
					continue
				}
				for _, f := range a.c.frames {
					if strings.Contains(f.fn.String(), substr) {
						r = smt.Or(r, a.guard)
						break
					}
				}
			}
		}
	case "BlockedIn": // a goroutine is stopped inside such a function and its operation cannot proceed
		for _, g := range sc.gs {
			for _, a := range g.alts {
				if a.c == nil {
					continue
				}
				in := false
				for _, f := range a.c.frames {
					if strings.Contains(f.fn.String(), substr) {
						in = true
					}
				}
				if in {
					r = smt.Or(r, smt.And(a.guard, smt.Not(ex.enabled(st, a.c))))
				}
			}
		}
	}
	return r
}

// registerGo is called by the sequential executor for a `go` statement when E2 is active.
func (ex *Exec) registerGo(st *State, fr *Frame, in *ssa.Go) {
	if ex.sched == nil {
		ex.sched = &sched{}
	}
	c := ex.spawnCont(fr, &in.Call)
	g := &goroutine{id: len(ex.sched.gs), name: c.top().fn.String(), alts: []galt{{guard: st.pc, c: c}}}
	ex.sched.gs = append(ex.sched.gs, g)
}

func chanIs(c Value, obj int) *smt.Term {
	switch cv := c.(type) {
	case *ChanV:
		return smt.BoolC(cv.Obj == obj)
	case *ChoiceV:
		return smt.Ite(cv.C, chanIs(cv.A, obj), chanIs(cv.B, obj))
	}
	return smt.False
}

// recvWaiting: some goroutine is stopped at a receive (or a select with a receive case) on channel obj.
func (ex *Exec) recvWaiting(st *State, obj int) *smt.Term {
	r := smt.False
	if ex.sched == nil {
		return r
	}
	for _, g := range ex.sched.gs {
		for _, a := range g.alts {
			if a.c == nil {
				continue
			}
			f := a.c.top()
			fr := f.asFrame()
			switch in := f.blk.Instrs[f.idx].(type) {
			case *ssa.UnOp:
				if in.Op == token.ARROW {
					r = smt.Or(r, smt.And(a.guard, chanIs(ex.val(fr, in.X), obj)))
				}
			case *ssa.Select:
				for _, s := range in.States {
					if s.Dir == types.RecvOnly {
						r = smt.Or(r, smt.And(a.guard, chanIs(ex.val(fr, s.Chan), obj)))
					}
				}
			}
		}
	}
	return r
}

// DescribeFinal reports, for a model, where every goroutine stands at the end of the unrolling (debugging aid and
// part of the counterexample report).
func (ex *Exec) DescribeFinal(model map[string]uint64) []string {
	if ex.sched == nil {
		return nil
	}
	memo := map[int]uint64{}
	var out []string
	for _, g := range ex.sched.gs {
		for _, a := range g.alts {
			if smt.Eval(a.guard, model, memo) == 0 {
				continue
			}
			if a.c == nil {
				out = append(out, fmt.Sprintf("g%d %s: terminated", g.id, shortName(g.name)))
				continue
			}
			f := a.c.top()
			pos := ex.Prog.Fset.Position(f.blk.Instrs[f.idx].Pos())
			out = append(out, fmt.Sprintf("g%d %s: stopped at %s (%s:%d) in %s", g.id, shortName(g.name), blockingOp(f.blk.Instrs[f.idx]), shortFile(pos.Filename), pos.Line, shortName(f.fn.String())))
		}
	}
	return out
}

func shortName(s string) string {
	if i := strings.LastIndex(s, "/"); i >= 0 {
		return s[i+1:]
	}
	return s
}

// checkProtected: an access to an object registered with verifrt.Protect must happen while the accessing
// goroutine holds the associated mutex (lock discipline; checked only inside goroutines of a concurrent run).
func (ex *Exec) checkProtected(st *State, site ssa.Instruction, obj int, what string) {
	if ex.curG == 0 || ex.protected == nil {
		return
	}
	isRead := strings.Contains(what, "read") || strings.Contains(what, "len") || strings.Contains(what, "range")
	if isRead && !ex.protectedRW[obj] {
		// reads by the goroutine that is the only writer are not races; only modifications are checked
		// (objects registered with ProtectRW have several writers: their reads are checked too)
		return
	}
	mu, ok := ex.protected[obj]
	if !ok {
		return
	}
	cur, ok := st.heap[mu].(*smt.Term)
	if !ok {
		cur = bv64(0)
	}
	held := smt.Eq(cur, bv64(int64(ex.curG+1)))
	if held.IsTrue() {
		return
	}
	if isRead {
		ex.outcome("assert", "C16: device state shared between goroutines is only accessed while holding its mutex ("+what+")", site, smt.And(st.pc, smt.Not(held)))
		return
	}
	ex.outcome("assert", "C16: device state is only modified while holding its mutex ("+what+")", site, smt.And(st.pc, smt.Not(held)))
}

// syncRead / syncWrite access the state cell of a mutex or wait group addressed by a (possibly guarded) pointer.
func (ex *Exec) syncRead(st *State, p Value, kind string) *smt.Term {
	if ch, ok := p.(*ChoiceV); ok {
		return smt.Ite(ch.C, ex.syncRead(st, ch.A, kind), ex.syncRead(st, ch.B, kind))
	}
	if _, isNil := p.(*NilV); isNil {
		return bv64(0)
	}
	id := ex.syncCell(st, p, kind)
	return st.heap[id].(*smt.Term)
}

func (ex *Exec) syncWrite(st *State, p Value, kind string, f func(old *smt.Term) *smt.Term) {
	ex.withChoice(st, p, func(st *State, q Value) Value {
		if _, isNil := q.(*NilV); isNil {
			st.kill()
			return nil
		}
		id := ex.syncCell(st, q, kind)
		st.heap[id] = f(st.heap[id].(*smt.Term))
		return nil
	})
}

// sendNeverBlocks: the channel is a large-capacity log (not a ring buffer of a concurrent run): sends to it are
// not scheduling points.
func (ex *Exec) sendNeverBlocks(st *State, fr *Frame, in *ssa.Send) bool {
	cv, ok := ex.val(fr, in.Chan).(*ChanV)
	if !ok {
		return false
	}
	cc, ok := ex.get(st, cv.Obj).(*ChanC)
	return ok && !cc.Ring && cc.Cap > 16
}
