package symex

import (
	"fmt"
	"regexp"
	"regexp/syntax"

	"golang.org/x/tools/go/ssa"
	"verif/engine/smt"
)

// Symbolic model of (*regexp.Regexp).FindStringSubmatch / MatchString for patterns of the form
// ^ item* $ where every item is a single-character class or literal with quantifier none, ?, * or +
// (greedy), possibly wrapped in capture groups. The pattern text is taken from the executed
// regexp.MustCompile call, i.e. from the code under test. Concrete subjects use the real regexp package.

type reItem struct {
	ranges   []rune // pairs lo,hi (ASCII only)
	min, max int    // max -1 = unbounded
}

type reProg struct {
	items  []reItem
	groups [][2]int // item index range [from,to) per capture group (1-based order)
}

func compileSimple(pattern string) (*reProg, error) {
	re, err := syntax.Parse(pattern, syntax.Perl)
	if err != nil {
		return nil, err
	}
	re = re.Simplify()
	if re.Op != syntax.OpConcat || len(re.Sub) < 2 || re.Sub[0].Op != syntax.OpBeginText || re.Sub[len(re.Sub)-1].Op != syntax.OpEndText {
		return nil, fmt.Errorf("pattern is not of the form ^...$")
	}
	p := &reProg{}
	var walk func(r *syntax.Regexp) error
	single := func(r *syntax.Regexp) ([]rune, bool) {
		switch r.Op {
		case syntax.OpCharClass:
			for _, c := range r.Rune {
				if c > 127 {
					return nil, false
				}
			}
			return r.Rune, true
		case syntax.OpLiteral:
			if len(r.Rune) == 1 && r.Rune[0] < 128 && r.Flags&syntax.FoldCase == 0 {
				return []rune{r.Rune[0], r.Rune[0]}, true
			}
		}
		return nil, false
	}
	walk = func(r *syntax.Regexp) error {
		switch r.Op {
		case syntax.OpConcat:
			for _, s := range r.Sub {
				if err := walk(s); err != nil {
					return err
				}
			}
			return nil
		case syntax.OpCapture:
			gi := len(p.groups)
			p.groups = append(p.groups, [2]int{len(p.items), 0})
			if r.Cap != gi+1 {
				return fmt.Errorf("capture numbering")
			}
			if err := walk(r.Sub[0]); err != nil {
				return err
			}
			p.groups[gi][1] = len(p.items)
			return nil
		case syntax.OpLiteral:
			if r.Flags&syntax.FoldCase != 0 {
				return fmt.Errorf("case folding unsupported")
			}
			for _, c := range r.Rune {
				if c > 127 {
					return fmt.Errorf("non-ASCII literal")
				}
				p.items = append(p.items, reItem{ranges: []rune{c, c}, min: 1, max: 1})
			}
			return nil
		case syntax.OpCharClass:
			rs, ok := single(r)
			if !ok {
				return fmt.Errorf("non-ASCII class")
			}
			p.items = append(p.items, reItem{ranges: rs, min: 1, max: 1})
			return nil
		case syntax.OpQuest, syntax.OpStar, syntax.OpPlus:
			if r.Flags&syntax.NonGreedy != 0 {
				return fmt.Errorf("non-greedy quantifier")
			}
			rs, ok := single(r.Sub[0])
			if !ok {
				return fmt.Errorf("quantifier over a non-single-character expression")
			}
			it := reItem{ranges: rs}
			switch r.Op {
			case syntax.OpQuest:
				it.min, it.max = 0, 1
			case syntax.OpStar:
				it.min, it.max = 0, -1
			case syntax.OpPlus:
				it.min, it.max = 1, -1
			}
			p.items = append(p.items, it)
			return nil
		case syntax.OpEmptyMatch:
			return nil
		}
		return fmt.Errorf("unsupported regexp operator %v", r.Op)
	}
	for _, s := range re.Sub[1 : len(re.Sub)-1] {
		if err := walk(s); err != nil {
			return nil, err
		}
	}
	return p, nil
}

func classMatch(b *smt.Term, ranges []rune) *smt.Term {
	r := smt.False
	for i := 0; i+1 < len(ranges); i += 2 {
		lo, hi := ranges[i], ranges[i+1]
		if lo == hi {
			r = smt.Or(r, smt.Eq(b, smt.Const(8, uint64(lo))))
		} else {
			r = smt.Or(r, inRange(b, byte(lo), byte(hi)))
		}
	}
	return r
}

// shapes enumerates repetition-count vectors in greedy (leftmost-first) priority order with total length <= n.
func (p *reProg) shapes(n int) [][]int {
	var out [][]int
	cur := make([]int, len(p.items))
	var rec func(i, used int)
	rec = func(i, used int) {
		if i == len(p.items) {
			out = append(out, append([]int(nil), cur...))
			return
		}
		it := p.items[i]
		mx := it.max
		if mx < 0 || mx > n-used {
			mx = n - used
		}
		for c := mx; c >= it.min; c-- {
			cur[i] = c
			rec(i+1, used+c)
		}
	}
	rec(0, 0)
	return out
}

func (ex *Exec) regexMatch(st *State, site ssa.Instruction, reObj *Opaque, s *StrV, submatch bool) Value {
	pat, _ := reObj.Data["pattern"].(*StrV).Concrete()
	if cs, ok := s.Concrete(); ok {
		re := regexp.MustCompile(pat)
		if !submatch {
			return smt.BoolC(re.MatchString(cs))
		}
		m := re.FindStringSubmatch(cs)
		if m == nil {
			return &SliceV{Obj: 0, Len: bv64(0)}
		}
		e := make([]Value, len(m))
		for i, x := range m {
			e[i] = ConcreteStr(x)
		}
		id := ex.newObj(st, &ArrayV{E: e})
		return &SliceV{Obj: id, Len: bv64(int64(len(e))), Cap: len(e), MaxLen: len(e)}
	}
	prog, err := compileSimple(pat)
	if err != nil {
		panic(unsupported("regexp " + pat + " on a symbolic subject: " + err.Error()))
	}
	n := len(s.B)
	shapes := prog.shapes(n)
	matched := smt.False
	ng := len(prog.groups)
	groupsV := make([]Value, ng+1)
	empty := ConcreteStr("")
	for i := range groupsV {
		groupsV[i] = empty
	}
	// iterate from lowest priority to highest so that the highest-priority matching shape wins
	for si := len(shapes) - 1; si >= 0; si-- {
		sh := shapes[si]
		total := 0
		for _, c := range sh {
			total += c
		}
		cond := smt.Eq(s.Len, bv64(int64(total)))
		pos := 0
		starts := make([]int, len(sh)+1)
		for i, c := range sh {
			starts[i] = pos
			for k := 0; k < c; k++ {
				cond = smt.And(cond, classMatch(s.B[pos], prog.items[i].ranges))
				pos++
			}
		}
		starts[len(sh)] = pos
		if cond.IsFalse() {
			continue
		}
		matched = smt.Or(cond, matched)
		if submatch {
			whole := &StrV{Len: bv64(int64(total)), B: append([]*smt.Term(nil), s.B[:total]...)}
			groupsV[0] = mergeV(cond, whole, groupsV[0])
			for g, rg := range prog.groups {
				a, b := starts[rg[0]], starts[rg[1]]
				sub := &StrV{Len: bv64(int64(b - a)), B: append([]*smt.Term(nil), s.B[a:b]...)}
				groupsV[g+1] = mergeV(cond, sub, groupsV[g+1])
			}
		}
	}
	if !submatch {
		return matched
	}
	id := ex.newObj(st, &ArrayV{E: groupsV})
	return &SliceV{Obj: id, Len: smt.Ite(matched, bv64(int64(ng+1)), bv64(0)), Cap: ng + 1, MaxLen: ng + 1}
}

func registerRegexStubs(ex *Exec) {
	S := ex.Stubs
	S["regexp.MustCompile"] = func(ex *Exec, st *State, site ssa.Instruction, fn *ssa.Function, args []Value) Value {
		op := ex.newOpaque("regexp")
		op.Data["pattern"] = args[0]
		return op
	}
	S["(*regexp.Regexp).FindStringSubmatch"] = func(ex *Exec, st *State, site ssa.Instruction, fn *ssa.Function, args []Value) Value {
		return ex.regexMatch(st, site, args[0].(*Opaque), args[1].(*StrV), true)
	}
	S["(*regexp.Regexp).MatchString"] = func(ex *Exec, st *State, site ssa.Instruction, fn *ssa.Function, args []Value) Value {
		return ex.regexMatch(st, site, args[0].(*Opaque), args[1].(*StrV), false)
	}
}
