package symex

import (
	"os"
	"path"
	"path/filepath"
	"sort"
	"strings"

	"golang.org/x/tools/go/ssa"
	"verif/engine/smt"
)

// Symbolic file system for the start-up upkeep code (C18): paths are concrete strings, the kind of each path
// (absent / file / directory) and file contents (at most fsMaxLen bytes) are symbolic. The embedded template tree
// is read from /repo/cmd/hidi/hidi-config at run time (the very files go:embed packs); each template file is
// abstracted to a distinct 2-byte content.

const fsMaxLen = 4

const (
	fsAbsent = 0
	fsFile   = 1
	fsDir    = 2
)

type fsNode struct {
	Kind *smt.Term // BV8
	Len  *smt.Term // BV64, <= fsMaxLen
	B    [fsMaxLen]*smt.Term
}

// fsState lives in the heap as an *Opaque-free immutable map copy (object content must be mergeable):
// it is stored as a *StructV whose fields follow fsPaths order: each path = StructV{Kind, Len, B0..}
type fsModel struct {
	obj      int
	paths    []string
	index    map[string]int
	tplDirs  map[string]bool
	tplFiles map[string]int // path -> content code
	order    []string       // template walk order
}

func (ex *Exec) fsm(st *State) *fsModel {
	if ex.fs != nil {
		return ex.fs
	}
	m := &fsModel{index: map[string]int{}, tplDirs: map[string]bool{}, tplFiles: map[string]int{}}
	root := filepath.Join(ex.RepoDir, "cmd", "hidi")
	// the go:embed patterns of cmd/hidi/config.go: hidi-config/hidi.toml, "device blacklist.txt", */*/*, the READMEs
	filepath.Walk(filepath.Join(root, "hidi-config"), func(p string, info os.FileInfo, err error) error {
		if err != nil {
			return nil
		}
		rel, _ := filepath.Rel(root, p)
		if info.IsDir() {
			m.tplDirs[rel] = true
		} else {
			base := filepath.Base(rel)
			if strings.HasPrefix(base, ".") || strings.HasPrefix(base, "_") {
				// embed skips dot/underscore files in directory patterns, but hidi-config/*/*/* names them explicitly:
				// .placeholder files match the glob and are embedded
			}
			m.tplFiles[rel] = len(m.tplFiles) + 1
		}
		m.order = append(m.order, rel)
		return nil
	})
	sort.Strings(m.order)
	for _, p := range m.order {
		m.addPath(p)
	}
	// side files a replacement strategy might use (all absent unless the harness creates them); registering them up
	// front keeps the shape of the file-system object fixed
	for _, p := range m.order {
		if !m.tplDirs[p] {
			for _, suf := range []string{".new", ".tmp", ".bak", "~"} {
				m.addPath(p + suf)
			}
		}
	}
	var fields []Value
	for range m.paths {
		fields = append(fields, absentNode())
	}
	m.obj = ex.newObj(st, &StructV{F: fields})
	ex.fs = m
	return m
}

func absentNode() *StructV {
	f := []Value{smt.Const(8, fsAbsent), bv64(0)}
	for i := 0; i < fsMaxLen; i++ {
		f = append(f, smt.Const(8, 0))
	}
	return &StructV{F: f}
}

func (m *fsModel) addPath(p string) int {
	if i, ok := m.index[p]; ok {
		return i
	}
	m.index[p] = len(m.paths)
	m.paths = append(m.paths, p)
	return len(m.paths) - 1
}

func (ex *Exec) fsNodeOf(st *State, p string) (int, *StructV) {
	m := ex.fsm(st)
	p = filepath.Clean(p)
	i, ok := m.index[p]
	cur := ex.get(st, m.obj).(*StructV)
	if !ok {
		i = m.addPath(p)
	}
	for len(cur.F) < len(m.paths) {
		cur = &StructV{F: append(append([]Value(nil), cur.F...), absentNode())}
		st.heap[m.obj] = cur
	}
	return i, cur.F[i].(*StructV)
}

func (ex *Exec) fsSetNode(st *State, i int, n *StructV) {
	m := ex.fsm(st)
	cur := ex.get(st, m.obj).(*StructV)
	f := append([]Value(nil), cur.F...)
	f[i] = n
	st.heap[m.obj] = &StructV{F: f}
}

func nodeKind(n *StructV) *smt.Term { return n.F[0].(*smt.Term) }

func (ex *Exec) fsErr(st *State, notExist bool) Value {
	op := ex.newOpaque("error")
	if notExist {
		op.Data["wrapped"] = ex.errNotExist()
	}
	return &IfaceV{T: nil, V: op}
}

func (ex *Exec) errNotExist() Value {
	if ex.notExist == nil {
		ex.notExist = &IfaceV{T: nil, V: ex.newOpaque("error")}
	}
	return ex.notExist
}

func templateContent(code int) (*smt.Term, []*smt.Term) {
	b := make([]*smt.Term, fsMaxLen)
	for i := range b {
		b[i] = smt.Const(8, 0)
	}
	b[0] = smt.Const(8, uint64(0x40+code))
	b[1] = smt.Const(8, 0xAA)
	return bv64(2), b
}

func (ex *Exec) bytesOfNode(st *State, n *StructV) *SliceV {
	e := make([]Value, fsMaxLen)
	for i := 0; i < fsMaxLen; i++ {
		e[i] = n.F[2+i]
	}
	id := ex.newObj(st, &ArrayV{E: e})
	return &SliceV{Obj: id, Len: n.F[1].(*smt.Term), Cap: fsMaxLen, MaxLen: fsMaxLen}
}

func registerFSStubs(ex *Exec) {
	S := ex.Stubs
	ex.GlobalInit["os.ErrNotExist"] = func(ex *Exec, st *State) Value { return ex.errNotExist() }
	for _, g := range []string{"path/filepath.SkipDir", "io/fs.SkipDir"} {
		ex.GlobalInit[g] = func(ex *Exec, st *State) Value { return ex.errSkipDir() }
	}
	for _, g := range []string{"path/filepath.SkipAll", "io/fs.SkipAll"} {
		ex.GlobalInit[g] = func(ex *Exec, st *State) Value { return ex.errSkipAll() }
	}
	S["os.IsNotExist"] = func(ex *Exec, st *State, site ssa.Instruction, fn *ssa.Function, args []Value) Value {
		return ex.errorsIs(args[0], ex.errNotExist())
	}
	parentOK := func(ex *Exec, st *State, p string) *smt.Term {
		dir := filepath.Dir(filepath.Clean(p))
		if dir == "." || dir == "/" {
			return smt.True
		}
		_, pn := ex.fsNodeOf(st, dir)
		return smt.Eq(nodeKind(pn), smt.Const(8, fsDir))
	}
	S["os.OpenFile"] = func(ex *Exec, st *State, site ssa.Instruction, fn *ssa.Function, args []Value) Value {
		p := concreteStrArg(args[0], "os.OpenFile path")
		flags := int(concreteIntArg(args[1], "os.OpenFile flags"))
		i, n := ex.fsNodeOf(st, p)
		kind := nodeKind(n)
		isAbsent := smt.Eq(kind, smt.Const(8, fsAbsent))
		isDir := smt.Eq(kind, smt.Const(8, fsDir))
		file := ex.newOpaque("osfile")
		file.Data["path"] = ConcreteStr(filepath.Clean(p))
		fileV := Value(file)
		var errCond, notExist *smt.Term
		if flags&os.O_CREATE != 0 {
			pok := parentOK(ex, st, p)
			notExist = smt.And(isAbsent, smt.Not(pok))
			errCond = smt.Or(notExist, isDir) // writing to a directory fails
			if flags&os.O_EXCL != 0 {
				errCond = smt.Or(errCond, smt.Not(isAbsent)) // O_EXCL: the file must not exist
			}
			// effect: create if absent, truncate if asked
			newN := n
			created := &StructV{F: append([]Value{smt.Const(8, fsFile), bv64(0)}, absentNode().F[2:]...)}
			if flags&os.O_TRUNC != 0 {
				newN = mergeV(smt.Not(errCond), created, n).(*StructV)
			} else {
				newN = mergeV(smt.And(isAbsent, pok), created, n).(*StructV)
			}
			ex.fsSetNode(st, i, newN)
		} else {
			notExist = isAbsent
			errCond = isAbsent
		}
		errV := mergeV(notExist, ex.fsErr(st, true), ex.fsErr(st, false))
		return &TupleV{E: []Value{mergeV(errCond, Value(Nil), fileV), mergeV(errCond, errV, Value(Nil))}}
	}
	S["(*os.File).Close"] = func(ex *Exec, st *State, site ssa.Instruction, fn *ssa.Function, args []Value) Value {
		return Nil
	}
	S["(*os.File).Write"] = func(ex *Exec, st *State, site ssa.Instruction, fn *ssa.Function, args []Value) Value {
		return ex.withChoice(st, args[1], func(st *State, dv Value) Value {
			return ex.withChoice(st, args[0], func(st *State, fv Value) Value {
				args := []Value{fv, dv}
				f, ok := fv.(*Opaque)
				if !ok {
					ex.panicOutcome(st, "Write on a nil *os.File", site, st.pc)
					st.kill()
					return nil
				}
				p, _ := f.Data["path"].(*StrV).Concrete()
				i, n := ex.fsNodeOf(st, p)
				data := args[1].(*SliceV)
				dl := data.Len
				elems := ex.sliceElems(st, data)
				// the file offset of a freshly opened file is 0: new content = data ++ old[len(data):]
				oldLen := n.F[1].(*smt.Term)
				newLen := smt.Ite(smt.Ugt(dl, oldLen), dl, oldLen)
				nf := []Value{smt.Const(8, fsFile), newLen}
				for k := 0; k < fsMaxLen; k++ {
					old := n.F[2+k].(*smt.Term)
					var nb *smt.Term = old
					if k < len(elems) {
						nb = smt.Ite(smt.Ult(bv64(int64(k)), dl), elems[k].(*smt.Term), old)
					}
					nf = append(nf, nb)
				}
				ex.fsSetNode(st, i, &StructV{F: nf})
				return &TupleV{E: []Value{dl, Nil}}
			})
		})
	}
	S["io.LimitReader"] = func(ex *Exec, st *State, site ssa.Instruction, fn *ssa.Function, args []Value) Value {
		lr := ex.newOpaque("limitReader")
		lr.Data["r"] = args[0]
		lr.Data["n"] = args[1]
		return &IfaceV{T: nil, V: lr}
	}
	var readAllOf func(ex *Exec, st *State, rv Value, limit *smt.Term) Value
	readAllOf = func(ex *Exec, st *State, rv Value, limit *smt.Term) Value {
		fail := func() Value {
			return &TupleV{E: []Value{&SliceV{Obj: 0, Len: bv64(0)}, ex.fsErr(st, false)}}
		}
		return ex.withChoice(st, rv, func(st *State, rv Value) Value {
			var inner Value = rv
			if iv, ok := rv.(*IfaceV); ok {
				inner = iv.V
			}
			return ex.withChoice(st, inner, func(st *State, fv Value) Value {
				f, ok := fv.(*Opaque)
				if !ok {
					return fail()
				}
				if f.Tag == "limitReader" {
					// at most n bytes of the underlying reader
					n, _ := f.Data["n"].(*smt.Term)
					if limit != nil {
						n = smt.Ite(smt.Slt(limit, n), limit, n)
					}
					return readAllOf(ex, st, f.Data["r"], n)
				}
				ps, ok := f.Data["path"].(*StrV)
				if !ok {
					panic(unsupported("io.ReadAll of a reader that is not a file of the model"))
				}
				p, _ := ps.Concrete()
				_, nd := ex.fsNodeOf(st, p)
				b := ex.bytesOfNode(st, nd)
				if limit != nil {
					lim := smt.Ite(smt.Slt(limit, bv64(0)), bv64(0), limit)
					b = &SliceV{Obj: b.Obj, Off: b.Off, Len: smt.Ite(smt.Ult(lim, b.Len), lim, b.Len), Cap: b.Cap, MaxLen: b.MaxLen}
				}
				return &TupleV{E: []Value{b, Nil}}
			})
		})
	}
	S["io.ReadAll"] = func(ex *Exec, st *State, site ssa.Instruction, fn *ssa.Function, args []Value) Value {
		return readAllOf(ex, st, args[0], nil)
	}
	S["os.ReadFile"] = func(ex *Exec, st *State, site ssa.Instruction, fn *ssa.Function, args []Value) Value {
		if ps, ok := args[0].(*StrV).Concrete(); ok && ex.fs != nil {
			_, n := ex.fsNodeOf(st, ps)
			isFile := smt.Eq(nodeKind(n), smt.Const(8, fsFile))
			isAbsent := smt.Eq(nodeKind(n), smt.Const(8, fsAbsent))
			errV := mergeV(isAbsent, ex.fsErr(st, true), ex.fsErr(st, false))
			return &TupleV{E: []Value{mergeV(isFile, Value(ex.bytesOfNode(st, n)), Value(&SliceV{Obj: 0, Len: bv64(0)})), mergeV(isFile, Value(Nil), errV)}}
		}
		fail := ex.freshBool("readfile_fails")
		data := ex.strToBytes(st, ConcreteStr("<file>"))
		return &TupleV{E: []Value{mergeV(fail, Value(&SliceV{Obj: 0, Len: bv64(0)}), data), mergeV(fail, &IfaceV{T: nil, V: ex.newOpaque("error")}, Nil)}}
	}
	S["os.Stat"] = func(ex *Exec, st *State, site ssa.Instruction, fn *ssa.Function, args []Value) Value {
		if sv, ok := args[0].(*StrV); ok {
			if _, conc := sv.Concrete(); !conc {
				// a path that is not a concrete string (e.g. the name carried by a watcher event) is outside the
				// file-system model: the answer is arbitrary (absent, or present with any kind and size)
				absent := ex.freshBool("stat_absent")
				info := ex.newOpaque("FileInfo")
				info.Data["isdir"] = ex.freshBool("stat_isdir")
				sz := ex.freshBV("stat_size", 64)
				st.assume(smt.Sge(sz, bv64(0)))
				info.Data["size"] = sz
				info.Data["name"] = args[0]
				return &TupleV{E: []Value{mergeV(absent, Value(Nil), Value(&IfaceV{T: nil, V: info})), mergeV(absent, ex.fsErr(st, true), Value(Nil))}}
			}
		}
		p := concreteStrArg(args[0], "os.Stat path")
		_, n := ex.fsNodeOf(st, p)
		isAbsent := smt.Eq(nodeKind(n), smt.Const(8, fsAbsent))
		info := ex.newOpaque("FileInfo")
		info.Data["isdir"] = smt.Eq(nodeKind(n), smt.Const(8, fsDir))
		info.Data["size"] = n.F[1]
		info.Data["name"] = ConcreteStr(filepath.Base(filepath.Clean(p)))
		return &TupleV{E: []Value{mergeV(isAbsent, Value(Nil), Value(&IfaceV{T: nil, V: info})), mergeV(isAbsent, ex.fsErr(st, true), Value(Nil))}}
	}
	S["FileInfo.IsDir"] = func(ex *Exec, st *State, site ssa.Instruction, fn *ssa.Function, args []Value) Value {
		return args[0].(*Opaque).Data["isdir"]
	}
	S["os.Mkdir"] = func(ex *Exec, st *State, site ssa.Instruction, fn *ssa.Function, args []Value) Value {
		p := concreteStrArg(args[0], "os.Mkdir path")
		i, n := ex.fsNodeOf(st, p)
		isAbsent := smt.Eq(nodeKind(n), smt.Const(8, fsAbsent))
		pok := parentOK(ex, st, p)
		okC := smt.And(isAbsent, pok)
		dirN := &StructV{F: append([]Value{smt.Const(8, fsDir), bv64(0)}, absentNode().F[2:]...)}
		ex.fsSetNode(st, i, mergeV(okC, dirN, n).(*StructV))
		return mergeV(okC, Value(Nil), mergeV(smt.And(isAbsent, smt.Not(pok)), ex.fsErr(st, true), ex.fsErr(st, false)))
	}
	S["path.Base"] = func(ex *Exec, st *State, site ssa.Instruction, fn *ssa.Function, args []Value) Value {
		return ConcreteStr(path.Base(concreteStrArg(args[0], "path.Base")))
	}
	S["path/filepath.Base"] = func(ex *Exec, st *State, site ssa.Instruction, fn *ssa.Function, args []Value) Value {
		return ConcreteStr(filepath.Base(concreteStrArg(args[0], "filepath.Base")))
	}
	S["os.MkdirAll"] = func(ex *Exec, st *State, site ssa.Instruction, fn *ssa.Function, args []Value) Value {
		p := filepath.Clean(concreteStrArg(args[0], "os.MkdirAll path"))
		parts := strings.Split(p, "/")
		failed := smt.False
		for k := 1; k <= len(parts); k++ {
			q := strings.Join(parts[:k], "/")
			if q == "" {
				continue
			}
			i, n := ex.fsNodeOf(st, q)
			isAbsent := smt.Eq(nodeKind(n), smt.Const(8, fsAbsent))
			isFile := smt.Eq(nodeKind(n), smt.Const(8, fsFile))
			dirN := &StructV{F: append([]Value{smt.Const(8, fsDir), bv64(0)}, absentNode().F[2:]...)}
			ex.fsSetNode(st, i, mergeV(smt.And(isAbsent, smt.Not(failed)), dirN, n).(*StructV))
			failed = smt.Or(failed, isFile)
		}
		return mergeV(failed, ex.fsErr(st, false), Value(Nil))
	}
	S["os.Rename"] = func(ex *Exec, st *State, site ssa.Instruction, fn *ssa.Function, args []Value) Value {
		from := concreteStrArg(args[0], "os.Rename old path")
		to := concreteStrArg(args[1], "os.Rename new path")
		i, n := ex.fsNodeOf(st, from)
		j, t := ex.fsNodeOf(st, to)
		isFile := smt.Eq(nodeKind(n), smt.Const(8, fsFile))
		okC := smt.And(isFile, smt.And(parentOK(ex, st, to), smt.Not(smt.Eq(nodeKind(t), smt.Const(8, fsDir)))))
		ex.fsSetNode(st, j, mergeV(okC, n, t).(*StructV))
		ex.fsSetNode(st, i, mergeV(okC, absentNode(), n).(*StructV))
		return mergeV(okC, Value(Nil), mergeV(smt.Eq(nodeKind(n), smt.Const(8, fsAbsent)), ex.fsErr(st, true), ex.fsErr(st, false)))
	}
	S["os.Remove"] = func(ex *Exec, st *State, site ssa.Instruction, fn *ssa.Function, args []Value) Value {
		p := concreteStrArg(args[0], "os.Remove path")
		i, n := ex.fsNodeOf(st, p)
		isFile := smt.Eq(nodeKind(n), smt.Const(8, fsFile))
		ex.fsSetNode(st, i, mergeV(isFile, absentNode(), n).(*StructV))
		return mergeV(isFile, Value(Nil), mergeV(smt.Eq(nodeKind(n), smt.Const(8, fsAbsent)), ex.fsErr(st, true), ex.fsErr(st, false)))
	}
	S["io/fs.WalkDir"] = func(ex *Exec, st *State, site ssa.Instruction, fn *ssa.Function, args []Value) Value {
		m := ex.fsm(st)
		root := filepath.Clean(concreteStrArg(args[1], "fs.WalkDir root"))
		cb := args[2]
		var ret Value = Nil
		for _, p := range m.order {
			if p != root && !strings.HasPrefix(p, root+"/") {
				continue
			}
			de := ex.newOpaque("DirEntry")
			de.Data["isdir"] = smt.BoolC(m.tplDirs[p])
			r := ex.applyFuncValue(st, site, cb, []Value{ConcreteStr(p), &IfaceV{T: nil, V: de}, Nil}, 1)
			if st.dead {
				return nil
			}
			// a non-nil error from the callback stops the walk
			isErr := smt.Not(ex.eqV(r, Nil))
			if isErr.IsTrue() {
				return r
			}
			if !isErr.IsFalse() {
				// continue the walk only on the success side; the error side returns r
				s2 := st.fork(isErr)
				ex.Forks++
				st.assume(smt.Not(isErr))
				// run the rest on st, then merge with the early-return state
				rest := ex.walkRest(st, site, m, root, p, cb)
				dst := &State{}
				mergeStates(dst, isErr, s2, st)
				*st = *dst
				return mergeV(isErr, r, rest)
			}
		}
		return ret
	}
	// filepath.Walk over the symbolic file system: the paths known to the model below root, in the order Walk uses
	// (depth first, names sorted per directory); a path is visited when it exists and every directory above it up
	// to root is a directory. A missing root is reported to the callback with a nil FileInfo and an error, as the
	// real function does; filepath.SkipDir/SkipAll results are honoured. Unreadable directories are not modelled.
	S["path/filepath.Walk"] = func(ex *Exec, st *State, site ssa.Instruction, fn *ssa.Function, args []Value) Value {
		m := ex.fsm(st)
		root := filepath.Clean(concreteStrArg(args[0], "filepath.Walk root"))
		cb := args[1]
		var below []string
		for _, p := range m.paths {
			if p == root || strings.HasPrefix(p, root+"/") {
				below = append(below, p)
			}
		}
		sort.Slice(below, func(i, j int) bool {
			a, b := strings.Split(below[i], "/"), strings.Split(below[j], "/")
			for k := 0; k < len(a) && k < len(b); k++ {
				if a[k] != b[k] {
					return a[k] < b[k]
				}
			}
			return len(a) < len(b)
		})
		_, rn := ex.fsNodeOf(st, root)
		rootAbsent := smt.Eq(nodeKind(rn), smt.Const(8, fsAbsent))
		var steps []walkStep
		steps = append(steps, walkStep{path: root, guard: rootAbsent, missing: true})
		for _, p := range below {
			_, n := ex.fsNodeOf(st, p)
			vis := smt.Not(smt.Eq(nodeKind(n), smt.Const(8, fsAbsent)))
			for d := filepath.Dir(p); p != root && len(d) >= len(root); d = filepath.Dir(d) {
				_, dn := ex.fsNodeOf(st, d)
				vis = smt.And(vis, smt.Eq(nodeKind(dn), smt.Const(8, fsDir)))
				if d == root {
					break
				}
			}
			if vis.IsFalse() {
				continue
			}
			steps = append(steps, walkStep{path: p, guard: vis, isDir: smt.Eq(nodeKind(n), smt.Const(8, fsDir))})
		}
		return ex.walkSteps(st, site, steps, cb)
	}
	S["FileInfo.Size"] = func(ex *Exec, st *State, site ssa.Instruction, fn *ssa.Function, args []Value) Value {
		if sz, ok := args[0].(*Opaque).Data["size"]; ok {
			return sz
		}
		panic(unsupported("FileInfo.Size of an entry without recorded size"))
	}
	S["FileInfo.Name"] = func(ex *Exec, st *State, site ssa.Instruction, fn *ssa.Function, args []Value) Value {
		return args[0].(*Opaque).Data["name"]
	}
	S["DirEntry.IsDir"] = func(ex *Exec, st *State, site ssa.Instruction, fn *ssa.Function, args []Value) Value {
		return args[0].(*Opaque).Data["isdir"]
	}
	S["io/fs.ReadFile"] = func(ex *Exec, st *State, site ssa.Instruction, fn *ssa.Function, args []Value) Value {
		m := ex.fsm(st)
		p := filepath.Clean(concreteStrArg(args[1], "fs.ReadFile path"))
		code, ok := m.tplFiles[p]
		if !ok {
			return &TupleV{E: []Value{&SliceV{Obj: 0, Len: bv64(0)}, ex.fsErr(st, true)}}
		}
		ln, b := templateContent(code)
		e := make([]Value, fsMaxLen)
		for i := range e {
			e[i] = b[i]
		}
		id := ex.newObj(st, &ArrayV{E: e})
		return &TupleV{E: []Value{&SliceV{Obj: id, Len: ln, Cap: fsMaxLen, MaxLen: 2}, Nil}}
	}
	// bytes.TrimSpace on a short slice: leading and trailing ASCII white space removed (the two-byte UTF-8 spaces
	// U+0085 and U+00A0 the real function also trims are not modelled); the result is a fresh slice
	S["bytes.TrimSpace"] = func(ex *Exec, st *State, site ssa.Instruction, fn *ssa.Function, args []Value) Value {
		return ex.withChoice(st, args[0], func(st *State, v Value) Value {
			a := v.(*SliceV)
			el := ex.sliceElems(st, a)
			n := len(el)
			if n > 8 {
				panic(unsupported("bytes.TrimSpace on a slice longer than 8 bytes"))
			}
			isWS := func(b *smt.Term) *smt.Term {
				r := smt.Eq(b, smt.Const(8, ' '))
				for _, c := range []uint64{'\t', '\n', '\v', '\f', '\r'} {
					r = smt.Or(r, smt.Eq(b, smt.Const(8, c)))
				}
				return r
			}
			// start = number of leading white-space bytes within the length
			start := bv64(0)
			allWS := smt.True
			for i := 0; i < n; i++ {
				allWS = smt.And(allWS, smt.And(smt.Ult(bv64(int64(i)), a.Len), isWS(el[i].(*smt.Term))))
				start = smt.Ite(allWS, bv64(int64(i+1)), start)
			}
			// end = length minus the number of trailing white-space bytes (not below start)
			// end = the smallest k such that bytes k..len-1 are all white space (not below start)
			var end *smt.Term
			end = a.Len
			for k := n; k >= 0; k-- {
				kk := bv64(int64(k))
				tail := smt.Ule(kk, a.Len)
				for i := k; i < n; i++ {
					tail = smt.And(tail, smt.Or(smt.Not(smt.Ult(bv64(int64(i)), a.Len)), isWS(el[i].(*smt.Term))))
				}
				end = smt.Ite(tail, kk, end)
			}
			end = smt.Ite(smt.Ult(end, start), start, end)
			out := make([]Value, n)
			for i := 0; i < n; i++ {
				var r *smt.Term = smt.Const(8, 0)
				for sft := n - 1 - i; sft >= 0; sft-- {
					r = smt.Ite(smt.Eq(start, bv64(int64(sft))), el[i+sft].(*smt.Term), r)
				}
				out[i] = r
			}
			id := ex.newObj(st, &ArrayV{E: out})
			return &SliceV{Obj: id, Len: smt.Sub(end, start), Cap: n, MaxLen: n}
		})
	}
	S["bytes.Equal"] = func(ex *Exec, st *State, site ssa.Instruction, fn *ssa.Function, args []Value) Value {
		a, b := args[0].(*SliceV), args[1].(*SliceV)
		ea, eb := ex.sliceElems(st, a), ex.sliceElems(st, b)
		r := smt.Eq(a.Len, b.Len)
		n := len(ea)
		if len(eb) > n {
			n = len(eb)
		}
		for i := 0; i < n; i++ {
			inb := smt.Ult(bv64(int64(i)), a.Len)
			if i < len(ea) && i < len(eb) {
				r = smt.And(r, smt.Implies(inb, smt.Eq(ea[i].(*smt.Term), eb[i].(*smt.Term))))
			} else {
				r = smt.And(r, smt.Not(inb))
			}
		}
		return r
	}
}

func (ex *Exec) walkRest(st *State, site ssa.Instruction, m *fsModel, root, after string, cb Value) Value {
	started := false
	for _, p := range m.order {
		if p == after {
			started = true
			continue
		}
		if !started || (p != root && !strings.HasPrefix(p, root+"/")) {
			continue
		}
		de := ex.newOpaque("DirEntry")
		de.Data["isdir"] = smt.BoolC(m.tplDirs[p])
		r := ex.applyFuncValue(st, site, cb, []Value{ConcreteStr(p), &IfaceV{T: nil, V: de}, Nil}, 1)
		if st.dead {
			return Nil
		}
		isErr := smt.Not(ex.eqV(r, Nil))
		if isErr.IsTrue() {
			return r
		}
		if !isErr.IsFalse() {
			s2 := st.fork(isErr)
			ex.Forks++
			st.assume(smt.Not(isErr))
			rest := ex.walkRest(st, site, m, root, p, cb)
			dst := &State{}
			mergeStates(dst, isErr, s2, st)
			*st = *dst
			return mergeV(isErr, r, rest)
		}
	}
	return Nil
}

type walkStep struct {
	path    string
	guard   *smt.Term
	isDir   *smt.Term
	missing bool // the root does not exist: callback(root, nil, err)
}

// walkSteps calls the Walk callback for each step whose guard holds; the first non-nil result ends the walk.
func (ex *Exec) walkSteps(st *State, site ssa.Instruction, steps []walkStep, cb Value) Value {
	for k, sp := range steps {
		if sp.guard.IsFalse() {
			continue
		}
		var r Value = Nil
		call := func(st *State) {
			if sp.missing {
				r = ex.applyFuncValue(st, site, cb, []Value{ConcreteStr(sp.path), Nil, ex.fsErr(st, true)}, 1)
				return
			}
			info := ex.newOpaque("FileInfo")
			info.Data["isdir"] = sp.isDir
			info.Data["name"] = ConcreteStr(filepath.Base(sp.path))
			r = ex.applyFuncValue(st, site, cb, []Value{ConcreteStr(sp.path), &IfaceV{T: nil, V: info}, Nil}, 1)
		}
		if sp.guard.IsTrue() {
			call(st)
		} else {
			ex.guarded(st, sp.guard, call)
			if r == nil {
				r = Nil
			}
			r = mergeV(sp.guard, r, Value(Nil))
		}
		if st.dead {
			return Nil
		}
		if r == nil {
			r = Nil // the callback's path ended in a reported panic
		}
		if sp.missing {
			// Walk returns what the callback made of the error; nothing else is visited when the root is missing
			if sp.guard.IsTrue() {
				return r
			}
			s2 := st.fork(sp.guard)
			ex.Forks++
			st.assume(smt.Not(sp.guard))
			rest := ex.walkSteps(st, site, steps[k+1:], cb)
			dst := &State{}
			mergeStates(dst, sp.guard, s2, st)
			*st = *dst
			return mergeV(sp.guard, r, rest)
		}
		notNil := smt.Not(ex.eqV(r, Nil))
		// filepath.SkipDir: from a directory, its content is skipped; from a file, the remaining entries of the
		// containing directory are skipped (that is what the real Walk does). filepath.SkipAll ends the walk.
		// Neither is an error of the walk.
		skipDir, skipAll := smt.False, smt.False
		if !notNil.IsFalse() {
			skipDir = smt.And(notNil, ex.eqV(r, ex.errSkipDir()))
			skipAll = smt.And(notNil, ex.eqV(r, ex.errSkipAll()))
		}
		if !skipDir.IsFalse() || !skipAll.IsFalse() {
			rest := append([]walkStep(nil), steps[k+1:]...)
			dirPrefix := filepath.Dir(sp.path) + "/"
			for j := range rest {
				affected := smt.False
				if strings.HasPrefix(rest[j].path, sp.path+"/") {
					affected = smt.Or(affected, smt.And(skipDir, sp.isDir)) // content of the skipped directory
				}
				if strings.HasPrefix(rest[j].path, dirPrefix) {
					affected = smt.Or(affected, smt.And(skipDir, smt.Not(sp.isDir))) // rest of the file's directory
				}
				affected = smt.Or(affected, skipAll)
				rest[j].guard = smt.And(rest[j].guard, smt.Not(affected))
			}
			steps = append(append([]walkStep(nil), steps[:k+1]...), rest...)
		}
		isErr := smt.And(notNil, smt.And(smt.Not(skipDir), smt.Not(skipAll)))
		if isErr.IsTrue() {
			return r
		}
		if !isErr.IsFalse() {
			s2 := st.fork(isErr)
			ex.Forks++
			st.assume(smt.Not(isErr))
			rest := ex.walkSteps(st, site, steps[k+1:], cb)
			dst := &State{}
			mergeStates(dst, isErr, s2, st)
			*st = *dst
			return mergeV(isErr, r, rest)
		}
	}
	return Nil
}

func (ex *Exec) errSkipDir() Value {
	if ex.skipDir == nil {
		ex.skipDir = &IfaceV{T: nil, V: ex.newOpaque("error")}
	}
	return ex.skipDir
}

func (ex *Exec) errSkipAll() Value {
	if ex.skipAll == nil {
		ex.skipAll = &IfaceV{T: nil, V: ex.newOpaque("error")}
	}
	return ex.skipAll
}
