package symex

import (
	"fmt"
	"os"
	"path/filepath"
	"strings"

	"golang.org/x/tools/go/packages"
	"golang.org/x/tools/go/ssa"
	"golang.org/x/tools/go/ssa/ssautil"
)

// BuildOverlay mirrors every file below overlayDir onto the same relative path below repo.
func BuildOverlay(repo, overlayDir string) (map[string][]byte, map[string]string, error) {
	ov := map[string][]byte{}
	paths := map[string]string{}
	err := filepath.Walk(overlayDir, func(p string, info os.FileInfo, err error) error {
		if err != nil {
			return err
		}
		if info.IsDir() {
			return nil
		}
		rel, _ := filepath.Rel(overlayDir, p)
		data, err := os.ReadFile(p)
		if err != nil {
			return err
		}
		dst := filepath.Join(repo, rel)
		ov[dst] = data
		paths[dst] = p
		return nil
	})
	return ov, paths, err
}

type Loaded struct {
	Prog *ssa.Program
	Pkgs []*ssa.Package
	Init []*packages.Package
}

func Load(repo string, overlay map[string][]byte, patterns []string) (*Loaded, error) {
	cfg := &packages.Config{
		Mode:       packages.NeedName | packages.NeedFiles | packages.NeedCompiledGoFiles | packages.NeedImports | packages.NeedDeps | packages.NeedTypes | packages.NeedSyntax | packages.NeedTypesInfo | packages.NeedTypesSizes | packages.NeedModule,
		Dir:        repo,
		Overlay:    overlay,
		BuildFlags: []string{"-tags=verif"},
		Env:        append(os.Environ(), "GOFLAGS=-mod=mod", "GOPROXY=off", "GOSUMDB=off", "GOTOOLCHAIN=local", "CGO_ENABLED=0"),
	}
	initial, err := packages.Load(cfg, patterns...)
	if err != nil {
		return nil, err
	}
	var errs []string
	packages.Visit(initial, nil, func(p *packages.Package) {
		for _, e := range p.Errors {
			errs = append(errs, p.PkgPath+": "+e.Error())
		}
	})
	if len(errs) > 0 {
		return nil, fmt.Errorf("package load errors:\n%s", strings.Join(errs, "\n"))
	}
	prog, pkgs := ssautil.AllPackages(initial, ssa.InstantiateGenerics)
	prog.Build()
	return &Loaded{Prog: prog, Pkgs: pkgs, Init: initial}, nil
}

// FindFunc looks up pkgpath.Func.
func (l *Loaded) FindFunc(pkgPath, name string) *ssa.Function {
	for _, p := range l.Prog.AllPackages() {
		if p.Pkg.Path() == pkgPath {
			return p.Func(name)
		}
	}
	return nil
}

// RunInit executes the package initialisers of pkg (and, transitively, of imported packages under test).
func (ex *Exec) RunInit(st *State, pkg *ssa.Package) {
	if ex.initDone[pkg] {
		return
	}
	ex.initDone[pkg] = true
	for _, imp := range pkg.Pkg.Imports() {
		if strings.HasPrefix(imp.Path(), ex.ModPrefix) {
			if ip := ex.Prog.Package(imp); ip != nil {
				ex.RunInit(st, ip)
			}
		}
	}
	init := pkg.Func("init")
	if init == nil {
		return
	}
	ex.CallFn(st, nil, init, nil, nil, 0)
}
