package symex

import (
	"fmt"

	"golang.org/x/tools/go/ssa"
	"verif/engine/smt"
)

type State struct {
	heap    map[int]Value
	pc      *smt.Term
	dead    bool
	facts   map[int]*smt.Term // term id -> constant it is known to equal on this path
	clauses []*smt.Term       // disjunctive path conditions (checked by propagation when forking)
}

// under simplifies a condition with what is known on this path (cheap infeasibility pruning):
// facts maps a term id to the constant it equals (True/False for Boolean terms).
func (st *State) under(c *smt.Term, depth int) *smt.Term {
	return underFacts(st.facts, nil, c, depth)
}

func underFacts(f1, f2 map[int]*smt.Term, c *smt.Term, depth int) *smt.Term {
	if (len(f1) == 0 && len(f2) == 0) || c.IsConst() || depth > 8 {
		return c
	}
	if k, ok := f1[c.ID]; ok {
		return k
	}
	if k, ok := f2[c.ID]; ok {
		return k
	}
	look := func(t *smt.Term) (*smt.Term, bool) {
		if k, ok := f1[t.ID]; ok {
			return k, true
		}
		k, ok := f2[t.ID]
		return k, ok
	}
	switch c.Op {
	case smt.OEq:
		a, b := c.A[0], c.A[1]
		if b.IsConst() {
			if k, ok := look(a); ok {
				return smt.BoolC(k == b)
			}
		}
		if a.IsConst() {
			if k, ok := look(b); ok {
				return smt.BoolC(k == a)
			}
		}
	case smt.ONot:
		return smt.Not(underFacts(f1, f2, c.A[0], depth+1))
	case smt.OAnd:
		x := underFacts(f1, f2, c.A[0], depth+1)
		if x.IsFalse() {
			return x
		}
		return smt.And(x, underFacts(f1, f2, c.A[1], depth+1))
	case smt.OOr:
		x := underFacts(f1, f2, c.A[0], depth+1)
		if x.IsTrue() {
			return x
		}
		return smt.Or(x, underFacts(f1, f2, c.A[1], depth+1))
	case smt.OIte:
		if c.S.K == smt.KBool {
			g := underFacts(f1, f2, c.A[0], depth+1)
			if g.IsTrue() {
				return underFacts(f1, f2, c.A[1], depth+1)
			}
			if g.IsFalse() {
				return underFacts(f1, f2, c.A[2], depth+1)
			}
		}
	}
	return c
}

func learnInto(f map[int]*smt.Term, c *smt.Term, depth int) {
	if depth > 8 || c.IsConst() {
		return
	}
	f[c.ID] = smt.True
	switch c.Op {
	case smt.OEq:
		a, b := c.A[0], c.A[1]
		if b.IsConst() && !a.IsConst() {
			f[a.ID] = b
		} else if a.IsConst() && !b.IsConst() {
			f[b.ID] = a
		}
	case smt.OAnd:
		learnInto(f, c.A[0], depth+1)
		learnInto(f, c.A[1], depth+1)
	case smt.ONot:
		x := c.A[0]
		f[x.ID] = smt.False
		if x.Op == smt.OOr { // ¬(a ∨ b) = ¬a ∧ ¬b
			learnInto(f, smt.Not(x.A[0]), depth+1)
			learnInto(f, smt.Not(x.A[1]), depth+1)
		}
	}
}

func (st *State) learn(c *smt.Term, depth int) {
	if st.facts == nil {
		st.facts = map[int]*smt.Term{}
	}
	learnInto(st.facts, c, depth)
	// conditions that are not plain facts are kept for later unit-propagation style checks
	if c.Op == smt.OOr || (c.Op == smt.OIte && c.S.K == smt.KBool) {
		st.clauses = append(st.clauses[:len(st.clauses):len(st.clauses)], c)
	} else if c.Op == smt.OAnd {
		st.collectClauses(c, 0)
	}
}

func (st *State) collectClauses(c *smt.Term, depth int) {
	if depth > 8 {
		return
	}
	switch c.Op {
	case smt.OAnd:
		st.collectClauses(c.A[0], depth+1)
		st.collectClauses(c.A[1], depth+1)
	case smt.OOr:
		st.clauses = append(st.clauses[:len(st.clauses):len(st.clauses)], c)
	case smt.OIte:
		if c.S.K == smt.KBool {
			st.clauses = append(st.clauses[:len(st.clauses):len(st.clauses)], c)
		}
	}
}

// infeasible reports whether adding c contradicts a remembered clause after one round of propagation.
func (st *State) infeasible(c *smt.Term) bool {
	if st.under(c, 0).IsFalse() {
		return true
	}
	if len(st.clauses) == 0 {
		return false
	}
	tmp := map[int]*smt.Term{}
	learnInto(tmp, c, 0)
	for _, cl := range st.clauses {
		if underFacts(tmp, st.facts, cl, 0).IsFalse() {
			return true
		}
	}
	return false
}

type deferEntry struct {
	G    *smt.Term
	Call *ssa.CallCommon
	Fn   Value
	Args []Value
}

type Frame struct {
	fn       *ssa.Function
	regs     map[ssa.Value]Value
	defers   []*deferEntry
	returned bool
	ret      Value
	visits   map[*ssa.BasicBlock]int
	depth    int
	startIdx int // resume in the middle of a block (used when paths are split at an instruction)
	catching bool // a deferred closure of this frame calls recover()
}

func (fr *Frame) clone() *Frame {
	n := &Frame{fn: fr.fn, regs: make(map[ssa.Value]Value, len(fr.regs)+8), returned: fr.returned, ret: fr.ret, depth: fr.depth, catching: fr.catching}
	for k, v := range fr.regs {
		n.regs[k] = v
	}
	n.defers = append([]*deferEntry(nil), fr.defers...)
	n.visits = make(map[*ssa.BasicBlock]int, len(fr.visits))
	for k, v := range fr.visits {
		n.visits[k] = v
	}
	return n
}

func (st *State) clone() *State {
	n := &State{heap: make(map[int]Value, len(st.heap)+8), pc: st.pc, dead: st.dead}
	for k, v := range st.heap {
		n.heap[k] = v
	}
	n.clauses = st.clauses
	if len(st.facts) > 0 {
		n.facts = make(map[int]*smt.Term, len(st.facts)+2)
		for k, v := range st.facts {
			n.facts[k] = v
		}
	}
	return n
}

func (st *State) fork(c *smt.Term) *State {
	n := st.clone()
	if st.infeasible(c) {
		n.pc = smt.False
		n.dead = true
		return n
	}
	n.pc = smt.And(st.pc, c)
	if n.pc.IsFalse() {
		n.dead = true
	}
	n.learn(c, 0)
	return n
}

func (st *State) kill() {
	st.dead = true
	st.pc = smt.False
}

// assume restricts the path condition.
func (st *State) assume(c *smt.Term) {
	if st.infeasible(c) {
		st.pc = smt.False
		st.dead = true
		return
	}
	st.pc = smt.And(st.pc, c)
	if st.pc.IsFalse() {
		st.dead = true
	}
	st.learn(c, 0)
}

// mergeInto makes dst the merge of s1 (taken iff c) and s2.
func mergeStates(dst *State, c *smt.Term, s1, s2 *State) {
	switch {
	case s1.dead && s2.dead:
		dst.dead = true
		dst.pc = smt.False
		return
	case s1.dead:
		dst.heap, dst.pc, dst.dead, dst.facts, dst.clauses = s2.heap, s2.pc, false, s2.facts, s2.clauses
		return
	case s2.dead:
		dst.heap, dst.pc, dst.dead, dst.facts, dst.clauses = s1.heap, s1.pc, false, s1.facts, s1.clauses
		return
	}
	h := make(map[int]Value, len(s1.heap)+8)
	for id, v1 := range s1.heap {
		if v2, ok := s2.heap[id]; ok {
			if v1 == v2 {
				h[id] = v1
			} else {
				h[id] = mergeV(c, v1, v2)
			}
		} else {
			h[id] = v1
		}
	}
	for id, v2 := range s2.heap {
		if _, ok := s1.heap[id]; !ok {
			h[id] = v2
		}
	}
	dst.heap = h
	dst.pc = smt.Or(s1.pc, s2.pc)
	dst.dead = false
	var f map[int]*smt.Term
	for k, v := range s1.facts {
		if w, ok := s2.facts[k]; ok && w == v {
			if f == nil {
				f = map[int]*smt.Term{}
			}
			f[k] = v
		}
	}
	dst.facts = f
	i := 0
	for i < len(s1.clauses) && i < len(s2.clauses) && s1.clauses[i] == s2.clauses[i] {
		i++
	}
	dst.clauses = s1.clauses[:i:i]
}

func mergeFrames(dst *Frame, c *smt.Term, s1, s2 *State, f1, f2 *Frame) {
	switch {
	case s1.dead && s2.dead:
		return
	case s1.dead:
		*dst = *f2
		return
	case s2.dead:
		*dst = *f1
		return
	}
	regs := make(map[ssa.Value]Value, len(f1.regs))
	for k, v1 := range f1.regs {
		if v2, ok := f2.regs[k]; ok {
			if v1 == v2 {
				regs[k] = v1
			} else {
				regs[k] = mergeV(c, v1, v2)
			}
		}
	}
	dst.regs = regs
	if f1.returned != f2.returned {
		panic(unsupported("merge of returned and non-returned paths in " + f1.fn.String()))
	}
	dst.returned = f1.returned
	if f1.returned {
		if f1.ret == nil && f2.ret == nil {
			dst.ret = nil
		} else {
			dst.ret = mergeV(c, f1.ret, f2.ret)
		}
	}
	// defers: common prefix + guarded suffixes
	i := 0
	for i < len(f1.defers) && i < len(f2.defers) && f1.defers[i] == f2.defers[i] {
		i++
	}
	d := append([]*deferEntry(nil), f1.defers[:i]...)
	for _, e := range f1.defers[i:] {
		d = append(d, &deferEntry{G: smt.And(c, e.G), Call: e.Call, Fn: e.Fn, Args: e.Args})
	}
	for _, e := range f2.defers[i:] {
		d = append(d, &deferEntry{G: smt.And(smt.Not(c), e.G), Call: e.Call, Fn: e.Fn, Args: e.Args})
	}
	dst.defers = d
	v := make(map[*ssa.BasicBlock]int)
	for k, n := range f1.visits {
		v[k] = n
	}
	for k, n := range f2.visits {
		if n > v[k] {
			v[k] = n
		}
	}
	dst.visits = v
}

type Unsupported struct{ Msg string }

func (u *Unsupported) Error() string      { return "unsupported: " + u.Msg }
func unsupported(msg string) *Unsupported { return &Unsupported{msg} }

func checkResources() {
	if smt.Abort.Load() {
		panic(smt.ResourceError{})
	}
}

func mergeV(c *smt.Term, a, b Value) Value {
	if a == b {
		return a
	}
	if c.IsTrue() {
		return a
	}
	if c.IsFalse() {
		return b
	}
	switch x := a.(type) {
	case *smt.Term:
		if y, ok := b.(*smt.Term); ok {
			return smt.Ite(c, x, y)
		}
	case *StructV:
		if y, ok := b.(*StructV); ok && len(x.F) == len(y.F) {
			f := make([]Value, len(x.F))
			for i := range f {
				f[i] = mergeV(c, x.F[i], y.F[i])
			}
			return &StructV{F: f}
		}
	case *ArrayV:
		if y, ok := b.(*ArrayV); ok && len(x.E) == len(y.E) {
			f := make([]Value, len(x.E))
			for i := range f {
				f[i] = mergeV(c, x.E[i], y.E[i])
			}
			return &ArrayV{E: f}
		}
	case *TupleV:
		if y, ok := b.(*TupleV); ok && len(x.E) == len(y.E) {
			f := make([]Value, len(x.E))
			for i := range f {
				f[i] = mergeV(c, x.E[i], y.E[i])
			}
			return &TupleV{E: f}
		}
	case *StrV:
		if y, ok := b.(*StrV); ok {
			n := len(x.B)
			if len(y.B) > n {
				n = len(y.B)
			}
			bs := make([]*smt.Term, n)
			z := smt.Const(8, 0)
			for i := 0; i < n; i++ {
				p, q := z, z
				if i < len(x.B) {
					p = x.B[i]
				}
				if i < len(y.B) {
					q = y.B[i]
				}
				bs[i] = smt.Ite(c, p, q)
			}
			return &StrV{Len: smt.Ite(c, x.Len, y.Len), B: bs}
		}
	case *PtrV:
		if y, ok := b.(*PtrV); ok && x.Obj == y.Obj && len(x.Path) == len(y.Path) {
			okShape := true
			for i := range x.Path {
				if (x.Path[i].Idx == nil) != (y.Path[i].Idx == nil) || (x.Path[i].Idx == nil && x.Path[i].Field != y.Path[i].Field) {
					okShape = false
					break
				}
			}
			if okShape {
				p := make([]PathEl, len(x.Path))
				for i := range p {
					if x.Path[i].Idx != nil {
						p[i] = PathEl{Idx: smt.Ite(c, x.Path[i].Idx, y.Path[i].Idx)}
					} else {
						p[i] = x.Path[i]
					}
				}
				return &PtrV{Obj: x.Obj, Path: p}
			}
		}
	case *SliceV:
		if y, ok := b.(*SliceV); ok && x.Obj == y.Obj && x.Off == y.Off && x.Cap == y.Cap {
			ml := x.MaxLen
			if y.MaxLen > ml {
				ml = y.MaxLen
			}
			return &SliceV{Obj: x.Obj, Off: x.Off, Cap: x.Cap, Len: smt.Ite(c, x.Len, y.Len), MaxLen: ml}
		}
	case *MapV:
		if y, ok := b.(*MapV); ok && x.Obj == y.Obj {
			return x
		}
	case *ChanV:
		if y, ok := b.(*ChanV); ok && x.Obj == y.Obj {
			return x
		}
	case *IterV:
		if y, ok := b.(*IterV); ok && x.Obj == y.Obj {
			return x
		}
	case *NilV:
		if _, ok := b.(*NilV); ok {
			return x
		}
	case *IfaceV:
		if y, ok := b.(*IfaceV); ok && sameType(x.T, y.T) {
			return &IfaceV{T: x.T, V: mergeV(c, x.V, y.V)}
		}
	case *FuncV:
		if y, ok := b.(*FuncV); ok && x.Fn == y.Fn && len(x.Bind) == len(y.Bind) {
			bd := make([]Value, len(x.Bind))
			for i := range bd {
				bd[i] = mergeV(c, x.Bind[i], y.Bind[i])
			}
			return &FuncV{Fn: x.Fn, Bind: bd}
		}
	case *Opaque:
		if y, ok := b.(*Opaque); ok && x.ID == y.ID {
			return x
		}
	case *ChoiceV:
		if y, ok := b.(*ChoiceV); ok && x.C == y.C {
			return mkChoice(x.C, mergeV(c, x.A, y.A), mergeV(c, x.B, y.B))
		}
	case *MapC:
		if y, ok := b.(*MapC); ok {
			return mergeMapC(c, x, y)
		}
	case *ChanC:
		if y, ok := b.(*ChanC); ok {
			return mergeChanC(c, x, y)
		}
	case *IterC:
		if y, ok := b.(*IterC); ok {
			return mergeIterC(c, x, y)
		}
	}
	return mkChoice(c, a, b)
}

func mkChoice(c *smt.Term, a, b Value) Value {
	if a == b {
		return a
	}
	if c.IsTrue() {
		return a
	}
	if c.IsFalse() {
		return b
	}
	switch a.(type) {
	case *MapC, *ChanC, *IterC:
		panic(unsupported(fmt.Sprintf("cannot merge heap contents %T and %T", a, b)))
	}
	// canonical form: one alternative per distinct reference (keeps choices from nesting without bound)
	type alt struct {
		g *smt.Term
		v Value
	}
	var alts []alt
	idx := map[string]int{}
	okFlat := true
	var collect func(g *smt.Term, v Value, depth int)
	collect = func(g *smt.Term, v Value, depth int) {
		if !okFlat || g.IsFalse() {
			return
		}
		if ch, isCh := v.(*ChoiceV); isCh {
			if depth > 64 {
				okFlat = false
				return
			}
			if ch.Excl {
				// exclusive chain: no need to accumulate negations level by level
				seen := smt.False
				var node Value = ch
				for {
					n, ok := node.(*ChoiceV)
					if !ok || !n.Excl {
						break
					}
					collect(smt.And(g, n.C), n.A, depth+1)
					seen = smt.Or(seen, n.C)
					node = n.B
				}
				collect(smt.And(g, smt.Not(seen)), node, depth+1)
				return
			}
			collect(smt.And(g, ch.C), ch.A, depth+1)
			collect(smt.And(g, smt.Not(ch.C)), ch.B, depth+1)
			return
		}
		id, ok := leafIdent(v)
		if !ok {
			okFlat = false
			return
		}
		if j, seen := idx[id]; seen {
			alts[j].g = smt.Or(alts[j].g, g)
			return
		}
		idx[id] = len(alts)
		alts = append(alts, alt{g, v})
	}
	collect(c, a, 0)
	collect(smt.Not(c), b, 0)
	if !okFlat || len(alts) == 0 {
		return &ChoiceV{C: c, A: a, B: b}
	}
	r := alts[len(alts)-1].v
	for i := len(alts) - 2; i >= 0; i-- {
		r = &ChoiceV{C: alts[i].g, A: alts[i].v, B: r, Excl: true}
	}
	return r
}

// leafIdent identifies reference values that can be shared between choice alternatives.
func leafIdent(v Value) (string, bool) {
	switch x := v.(type) {
	case *NilV:
		return "nil", true
	case *ChanV:
		return fmt.Sprintf("ch%d", x.Obj), true
	case *MapV:
		return fmt.Sprintf("m%d", x.Obj), true
	case *IterV:
		return fmt.Sprintf("it%d", x.Obj), true
	case *Opaque:
		return fmt.Sprintf("o%d", x.ID), true
	case *PtrV:
		for _, p := range x.Path {
			if p.Idx != nil && !p.Idx.IsConst() {
				return "", false
			}
		}
		return keyIdent(x), true
	case *FuncV:
		if len(x.Bind) == 0 {
			return fmt.Sprintf("fn%p", x.Fn), true
		}
	case *SliceV:
		if x.Len.IsConst() {
			return fmt.Sprintf("sl%d:%d:%d:%d", x.Obj, x.Off, x.Cap, x.Len.V), true
		}
	case *IfaceV:
		if id, ok := leafIdent(x.V); ok {
			return fmt.Sprintf("i(%v:%s)", x.T, id), true
		}
	}
	return "", false
}

func mergeMapC(c *smt.Term, x, y *MapC) *MapC {
	if x.Arr {
		cand := x.Cand
		if len(y.Cand) != len(x.Cand) || (len(x.Cand) > 0 && x.Cand[len(x.Cand)-1] != y.Cand[len(y.Cand)-1]) {
			seen := map[int]bool{}
			cand = nil
			for _, k := range x.Cand {
				if !seen[k.ID] {
					seen[k.ID] = true
					cand = append(cand, k)
				}
			}
			for _, k := range y.Cand {
				if !seen[k.ID] {
					seen[k.ID] = true
					cand = append(cand, k)
				}
			}
		}
		var sure map[uint64]bool
		if len(x.Sure) > 0 && len(y.Sure) > 0 {
			same := len(x.Sure) == len(y.Sure)
			if same {
				for k := range x.Sure {
					if !y.Sure[k] {
						same = false
						break
					}
				}
			}
			if same {
				sure = x.Sure
			} else {
				sure = map[uint64]bool{}
				for k := range x.Sure {
					if y.Sure[k] {
						sure[k] = true
					}
				}
			}
		}
		return &MapC{KT: x.KT, VT: x.VT, Arr: true, Pres: smt.IteArr(c, x.Pres, y.Pres), Val: smt.IteArr(c, x.Val, y.Val),
			Count: smt.Ite(c, x.Count, y.Count), Cand: cand, Sure: sure}
	}
	idx := make(map[string]int, len(y.Entries))
	for i, e := range y.Entries {
		idx[keyIdent(e.K)] = i
	}
	used := make([]bool, len(y.Entries))
	var out []MapEntry
	for _, e := range x.Entries {
		if j, ok := idx[keyIdent(e.K)]; ok && !used[j] {
			used[j] = true
			f := y.Entries[j]
			p := smt.Ite(c, e.P, f.P)
			if p.IsFalse() {
				continue
			}
			out = append(out, MapEntry{K: e.K, P: p, V: mergeV(c, e.V, f.V)})
		} else {
			p := smt.And(c, e.P)
			if p.IsFalse() {
				continue
			}
			out = append(out, MapEntry{K: e.K, P: p, V: e.V})
		}
	}
	nc := smt.Not(c)
	for j, f := range y.Entries {
		if used[j] {
			continue
		}
		p := smt.And(nc, f.P)
		if p.IsFalse() {
			continue
		}
		out = append(out, MapEntry{K: f.K, P: p, V: f.V})
	}
	return &MapC{Entries: out, KT: x.KT, VT: x.VT}
}

func mergeChanC(c *smt.Term, x, y *ChanC) *ChanC {
	if x.Ring {
		sl := make([]Value, len(x.Slots))
		for i := range sl {
			sl[i] = mergeV(c, x.Slots[i], y.Slots[i])
		}
		return &ChanC{Ring: true, Slots: sl, Len: smt.Ite(c, x.Len, y.Len), Closed: smt.Ite(c, x.Closed, y.Closed), Cap: x.Cap}
	}
	i := 0
	for i < len(x.Entries) && i < len(y.Entries) && x.Entries[i] == y.Entries[i] {
		i++
	}
	out := append([]ChanEntry(nil), x.Entries[:i]...)
	xs, ys := x.Entries[i:], y.Entries[i:]
	nc := smt.Not(c)
	if len(xs) == len(ys) {
		same := true
		for k := range xs {
			if xs[k].V != ys[k].V {
				same = false
				break
			}
		}
		if same {
			for k := range xs {
				out = append(out, ChanEntry{G: smt.Ite(c, xs[k].G, ys[k].G), V: xs[k].V})
			}
			xs, ys = nil, nil
		}
	}
	for _, e := range xs {
		out = append(out, ChanEntry{G: smt.And(c, e.G), V: e.V})
	}
	for _, e := range ys {
		out = append(out, ChanEntry{G: smt.And(nc, e.G), V: e.V})
	}
	sent := x.Sent
	if y.Sent > sent {
		sent = y.Sent
	}
	return &ChanC{Entries: out, Closed: smt.Ite(c, x.Closed, y.Closed), Cap: x.Cap, Sent: sent}
}

func mergeIterC(c *smt.Term, x, y *IterC) *IterC {
	if x.MapObj != y.MapObj || len(x.Keys) != len(y.Keys) || x.IsStr != y.IsStr || x.Pos != y.Pos {
		return &IterC{Invalid: true}
	}
	tv := make([]*smt.Term, len(x.ToVisit))
	for i := range tv {
		tv[i] = smt.Ite(c, x.ToVisit[i], y.ToVisit[i])
	}
	start := x.Start
	if y.Start < start {
		start = y.Start
	}
	return &IterC{MapObj: x.MapObj, Keys: x.Keys, ToVisit: tv, Str: x.Str, Pos: x.Pos, IsStr: x.IsStr, Start: start, Distinct: x.Distinct && y.Distinct}
}
