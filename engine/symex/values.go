package symex

import (
	"fmt"
	"go/types"
	"strings"

	"golang.org/x/tools/go/ssa"
	"verif/engine/smt"
)

// Value is one of: *smt.Term, *StructV, *ArrayV, *TupleV, *PtrV, *SliceV, *MapV, *ChanV,
// *StrV, *IfaceV, *FuncV, *NilV, *ChoiceV, *IterV, *Opaque.
type Value interface{}

type StructV struct{ F []Value }
type ArrayV struct{ E []Value }
type TupleV struct{ E []Value }

type PathEl struct {
	Field int
	Idx   *smt.Term // non-nil: array index (BV64)
}

type PtrV struct {
	Obj  int
	Path []PathEl
}

type SliceV struct {
	Obj    int // 0 = nil slice
	Off    int
	Len    *smt.Term // BV64
	Cap    int       // capacity counted from Off
	MaxLen int       // concrete upper bound of Len
}

type MapV struct{ Obj int }
type ChanV struct{ Obj int }

type StrV struct {
	Len *smt.Term // BV64
	B   []*smt.Term
}

type IfaceV struct {
	T types.Type
	V Value
}

type FuncV struct {
	Fn   *ssa.Function
	Bind []Value
	// bound method on interface value / builtin are resolved at call sites
}

type NilV struct{}

var Nil = &NilV{}

type ChoiceV struct {
	C    *smt.Term
	A, B Value
	Excl bool // canonical chain: the C guards along the B-chain are mutually exclusive
}

// Opaque is an environment object created by a stub (mutex, context, regexp, file info, …).
type Opaque struct {
	Tag  string
	ID   int
	Data map[string]Value
}

// heap contents for maps and channels
type MapEntry struct {
	K Value
	P *smt.Term
	V Value
}
type MapC struct {
	Entries []MapEntry
	KT, VT  types.Type
	// array-backed representation for small-integer keys and scalar values
	Arr   bool
	Pres  *smt.Term // Array idx -> Bool
	Val   *smt.Term // Array idx -> value (zero where absent)
	Count *smt.Term // BV64 number of present keys
	Cand  []*smt.Term // every key ever inserted (for range)
	Sure  map[uint64]bool // concrete keys that are certainly present (whatever symbolic stores happened)
}
type ChanEntry struct {
	G *smt.Term
	V Value
}
type ChanC struct {
	Entries []ChanEntry
	Closed  *smt.Term
	Cap     int
	Sent    int // total physical sends (for stamps)
	// ring mode (concurrent runs, small capacities): positional slots and a symbolic length
	Ring  bool
	Slots []Value
	Len   *smt.Term
}

// IterV is a map / string range iterator.
type IterV struct {
	Obj int // heap object holding *IterC
}
type IterC struct {
	MapObj  int
	Keys    []Value
	ToVisit []*smt.Term
	Str     *StrV
	Pos     int
	IsStr   bool
	Start    int  // entries before Start are known to be done
	Distinct bool // all candidate keys are pairwise distinct constants
	Invalid bool // merged from diverged iterators (only legal if never used again)
}

func bv64(v int64) *smt.Term { return smt.ConstI(64, v) }

func ConcreteStr(s string) *StrV {
	b := make([]*smt.Term, len(s))
	for i := 0; i < len(s); i++ {
		b[i] = smt.Const(8, uint64(s[i]))
	}
	return &StrV{Len: bv64(int64(len(s))), B: b}
}

// Concrete returns the Go string if fully concrete.
func (s *StrV) Concrete() (string, bool) {
	if !s.Len.IsConst() {
		return "", false
	}
	n := int(s.Len.V)
	if n > len(s.B) {
		return "", false
	}
	var sb strings.Builder
	for i := 0; i < n; i++ {
		if !s.B[i].IsConst() {
			return "", false
		}
		sb.WriteByte(byte(s.B[i].V))
	}
	return sb.String(), true
}

func strEq(a, b *StrV) *smt.Term {
	r := smt.Eq(a.Len, b.Len)
	n := len(a.B)
	if len(b.B) < n {
		n = len(b.B)
	}
	// lengths beyond the shorter physical size cannot be equal unless len <= n
	if r.IsFalse() {
		return r
	}
	for i := 0; i < n; i++ {
		inb := smt.Ult(bv64(int64(i)), a.Len)
		r = smt.And(r, smt.Implies(inb, smt.Eq(a.B[i], b.B[i])))
		if r.IsFalse() {
			return r
		}
	}
	// if a.Len could exceed n, equal lengths imply both > n which is impossible for the shorter
	r = smt.And(r, smt.Ule(a.Len, bv64(int64(n))))
	return r
}

func describe(v Value) string {
	switch x := v.(type) {
	case nil:
		return "<nil-go>"
	case *smt.Term:
		s := x.String()
		if len(s) > 60 {
			s = s[:60] + "…"
		}
		return s
	case *StructV:
		return fmt.Sprintf("struct{%d}", len(x.F))
	case *ArrayV:
		return fmt.Sprintf("array[%d]", len(x.E))
	case *TupleV:
		return fmt.Sprintf("tuple(%d)", len(x.E))
	case *PtrV:
		return fmt.Sprintf("ptr(obj%d,%v)", x.Obj, x.Path)
	case *SliceV:
		return fmt.Sprintf("slice(obj%d,off%d,len %s,cap%d)", x.Obj, x.Off, describe(x.Len), x.Cap)
	case *MapV:
		return fmt.Sprintf("map(obj%d)", x.Obj)
	case *ChanV:
		return fmt.Sprintf("chan(obj%d)", x.Obj)
	case *StrV:
		if s, ok := x.Concrete(); ok {
			return fmt.Sprintf("%q", s)
		}
		return "str(sym)"
	case *IfaceV:
		return fmt.Sprintf("iface(%v,%s)", x.T, describe(x.V))
	case *FuncV:
		return "func " + x.Fn.String()
	case *NilV:
		return "nil"
	case *ChoiceV:
		return fmt.Sprintf("choice(%s ? %s : %s)", describe(x.C), describe(x.A), describe(x.B))
	case *Opaque:
		return fmt.Sprintf("opaque(%s#%d)", x.Tag, x.ID)
	}
	return fmt.Sprintf("%T", v)
}

// keyIdent gives a canonical identity string for map keys (syntactic identity).
func keyIdent(k Value) string {
	switch x := k.(type) {
	case *smt.Term:
		return fmt.Sprintf("t%d", x.ID)
	case *StrV:
		var sb strings.Builder
		fmt.Fprintf(&sb, "s%d", x.Len.ID)
		n := len(x.B)
		if x.Len.IsConst() && int(x.Len.V) < n {
			n = int(x.Len.V)
		}
		for i := 0; i < n; i++ {
			fmt.Fprintf(&sb, ".%d", x.B[i].ID)
		}
		return sb.String()
	case *StructV:
		var sb strings.Builder
		sb.WriteString("{")
		for _, f := range x.F {
			sb.WriteString(keyIdent(f))
			sb.WriteString(",")
		}
		sb.WriteString("}")
		return sb.String()
	case *ArrayV:
		var sb strings.Builder
		sb.WriteString("[")
		for _, f := range x.E {
			sb.WriteString(keyIdent(f))
			sb.WriteString(",")
		}
		sb.WriteString("]")
		return sb.String()
	case *PtrV:
		return fmt.Sprintf("p%d%v", x.Obj, x.Path)
	case *NilV:
		return "nil"
	case *IfaceV:
		return fmt.Sprintf("i(%v:%s)", x.T, keyIdent(x.V))
	case *ChoiceV:
		return fmt.Sprintf("c(%d?%s:%s)", x.C.ID, keyIdent(x.A), keyIdent(x.B))
	case *Opaque:
		return fmt.Sprintf("o%d", x.ID)
	}
	return fmt.Sprintf("?%p", k)
}

func sortOf(t types.Type) (smt.Sort, bool) {
	switch b := t.Underlying().(type) {
	case *types.Basic:
		switch b.Kind() {
		case types.Bool, types.UntypedBool:
			return smt.Bool, true
		case types.Int8, types.Uint8:
			return smt.BV(8), true
		case types.Int16, types.Uint16:
			return smt.BV(16), true
		case types.Int32, types.Uint32:
			return smt.BV(32), true
		case types.Int, types.Uint, types.Int64, types.Uint64, types.Uintptr, types.UntypedInt, types.UntypedRune:
			return smt.BV(64), true
		case types.Float64, types.UntypedFloat:
			return smt.FP64, true
		}
	}
	return smt.Sort{}, false
}

func isSigned(t types.Type) bool {
	if b, ok := t.Underlying().(*types.Basic); ok {
		return b.Info()&types.IsInteger != 0 && b.Info()&types.IsUnsigned == 0
	}
	return false
}

func isString(t types.Type) bool {
	b, ok := t.Underlying().(*types.Basic)
	return ok && b.Info()&types.IsString != 0
}
func isFloat(t types.Type) bool {
	b, ok := t.Underlying().(*types.Basic)
	return ok && b.Info()&types.IsFloat != 0
}
