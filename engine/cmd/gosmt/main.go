package main

import (
	"encoding/json"
	"flag"
	"fmt"
	"os"
	"strconv"
	"strings"

	"verif/engine/driver"
)

func main() {
	if len(os.Args) < 2 {
		fmt.Fprintln(os.Stderr, "usage: gosmt run|check ...")
		os.Exit(2)
	}
	switch os.Args[1] {
	case "run":
		cmdRun(os.Args[2:])
	case "check":
		cmdCheck(os.Args[2:])
	default:
		fmt.Fprintln(os.Stderr, "unknown command", os.Args[1])
		os.Exit(2)
	}
}

func env(k, d string) string {
	if v := os.Getenv(k); v != "" {
		return v
	}
	return d
}

// run: debug entry — run one harness and dump the result as JSON.
func cmdRun(args []string) {
	fs := flag.NewFlagSet("run", flag.ExitOnError)
	repo := fs.String("repo", env("VERIF_REPO", "/repo"), "repository")
	hdir := fs.String("harness-dir", "/verif/harness", "overlay tree")
	pkg := fs.String("pkg", "internal/pkg/midi/device", "package (relative import path)")
	fn := fs.String("func", "", "harness function")
	params := fs.String("params", "", "k=v,k=v")
	unwind := fs.Int("unwind", 0, "unwinding bound")
	solvers := fs.String("solvers", "z3-new,cvc5", "comma separated portfolio")
	timeout := fs.Int("timeout", 120, "solver timeout (s)")
	split := fs.Bool("split", false, "one query per outcome")
	fs.Parse(args)
	s, err := driver.NewSession(*repo, *hdir)
	if err != nil {
		fmt.Fprintln(os.Stderr, err)
		os.Exit(3)
	}
	defer s.Close()
	spec := driver.HarnessSpec{Pkg: *pkg, Func: *fn, Unwind: *unwind, Solvers: strings.Split(*solvers, ","), Timeout: *timeout, Split: *split, Params: map[string]int{}}
	if *params != "" {
		for _, kv := range strings.Split(*params, ",") {
			p := strings.SplitN(kv, "=", 2)
			n, _ := strconv.Atoi(p[1])
			spec.Params[p[0]] = n
		}
	}
	r := s.RunHarness(spec)
	data, _ := json.MarshalIndent(r, "", " ")
	fmt.Println(string(data))
}

func cmdCheck(args []string) {
	fs := flag.NewFlagSet("check", flag.ExitOnError)
	repo := fs.String("repo", env("VERIF_REPO", "/repo"), "repository")
	verif := fs.String("verif", "/verif", "verif directory")
	tier := fs.String("tier", env("VERIF_TIER", "quick"), "quick|thorough")
	fs.Parse(args)
	ids := fs.Args()
	if len(ids) == 0 {
		fmt.Fprintln(os.Stderr, "usage: gosmt check [--tier t] ID...")
		os.Exit(2)
	}
	seed, _ := strconv.Atoi(env("VERIF_SEED", "0"))
	checks, err := driver.LoadChecks(*verif + "/checks.json")
	if err != nil {
		fmt.Fprintln(os.Stderr, err)
		os.Exit(3)
	}
	known, err := driver.LoadKnown(*verif + "/known_findings.json")
	if err != nil {
		fmt.Fprintln(os.Stderr, err)
		os.Exit(3)
	}
	driver.ReplayDir = *verif + "/replays"
	s, err := driver.NewSession(*repo, *verif+"/harness")
	if err != nil {
		// a tree that does not load cannot be judged: not an alarm
		fmt.Println("INCONCLUSIVE: cannot load /repo with the harness overlay:", err)
		for _, id := range ids {
			driver.WriteLoadFailureEvidence(*verif, id, *tier, seed, err.Error())
		}
		os.Exit(0)
	}
	defer s.Close()
	code := 0
	for _, id := range ids {
		spec, ok := checks[id]
		if !ok {
			fmt.Fprintln(os.Stderr, "no check registered for", id)
			code = 2
			continue
		}
		if c := driver.RunCheck(s, *verif, id, *tier, spec, known, seed); c != 0 {
			code = c
		}
	}
	s.Close()
	os.Exit(code)
}
