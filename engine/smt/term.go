// Package smt is a small hash-consed term DAG for QF_BV + Bool + Float64 with
// local simplification (constant folding), an SMT-LIB2 printer and an evaluator.
package smt

import (
	"sync/atomic"
	"fmt"
	"math"
	"math/bits"
	"sort"
	"strings"
)

type Kind uint8

const (
	KBool Kind = iota
	KBV
	KFP // float64
	KArr
)

type Sort struct {
	K  Kind
	W  int  // bit width (BV), element width (arrays)
	IW int  // arrays: index width
	EK Kind // arrays: element kind
}

var Bool = Sort{K: KBool}
var FP64 = Sort{K: KFP, W: 64}

func BV(w int) Sort { return Sort{K: KBV, W: w} }

// Arr is the sort of arrays from BV(iw) to elem.
func Arr(iw int, elem Sort) Sort { return Sort{K: KArr, W: elem.W, IW: iw, EK: elem.K} }

// Elem returns the element sort of an array sort.
func (s Sort) Elem() Sort { return Sort{K: s.EK, W: s.W} }

func (s Sort) String() string {
	switch s.K {
	case KBool:
		return "Bool"
	case KBV:
		return fmt.Sprintf("(_ BitVec %d)", s.W)
	case KArr:
		return fmt.Sprintf("(Array (_ BitVec %d) %s)", s.IW, s.Elem())
	default:
		return "(_ FloatingPoint 11 53)"
	}
}

type Op uint8

const (
	OConst Op = iota // BV/Bool/FP constant, value in V
	OVar
	ONot
	OAnd
	OOr
	OIte
	OEq
	OAdd
	OSub
	OMul
	OUDiv
	OURem
	OSDiv
	OSRem
	OBAnd
	OBOr
	OBXor
	OBNot
	ONeg
	OShl
	OLShr
	OAShr
	OUlt
	OUle
	OSlt
	OSle
	OConcat
	OExtract // V = hi<<8|lo
	OZExt    // result width in sort
	OSExt
	OFAdd
	OFSub
	OFMul
	OFDiv
	OFNeg
	OFAbs
	OFFloor // fp.roundToIntegral RTN
	OFLt
	OFLe
	OFEq
	OFIsNaN
	OFFromSBV // signed bv -> fp (RNE)
	OFFromUBV
	OFToSBV   // fp -> signed bv, RTZ, amd64 cvttsd2si semantics for out-of-range handled by builder
	OFFromBits // bv64 -> fp reinterpret
	OFToSBVRaw // raw fp.to_sbv RTZ (unspecified out of range)
	OArrConst  // constant array, A[0] = element
	OSelect
	OStore
)

type Term struct {
	ID   int
	Op   Op
	S    Sort
	A    []*Term
	V    uint64
	Name string
}

type key struct {
	op   Op
	s    Sort
	v    uint64
	name string
	a0, a1, a2 int
	n    int
}

// Abort is set by the driver's memory watchdog: term construction then panics with ResourceError, which the
// driver reports as an inconclusive harness (never as success).
var Abort atomic.Bool

type ResourceError struct{}

func (ResourceError) Error() string {
	return "resource bound: encoder memory limit reached (harness bounds too large for this machine); nothing is claimed for this harness"
}

var table = map[key]*Term{}
var nextID = 1
var NumTerms = 0
var NumByOp = map[Op]int{}

func mk(op Op, s Sort, v uint64, name string, args ...*Term) *Term {
	k := key{op: op, s: s, v: v, name: name, n: len(args)}
	if len(args) > 0 {
		k.a0 = args[0].ID
	}
	if len(args) > 1 {
		k.a1 = args[1].ID
	}
	if len(args) > 2 {
		k.a2 = args[2].ID
	}
	if len(args) > 3 {
		panic("smt: too many args")
	}
	if t, ok := table[k]; ok {
		return t
	}
	if nextID&0x3fff == 0 && Abort.Load() {
		panic(ResourceError{})
	}
	t := &Term{ID: nextID, Op: op, S: s, A: append([]*Term(nil), args...), V: v, Name: name}
	nextID++
	NumTerms++
	NumByOp[op]++
	table[k] = t
	return t
}

// ResetTable forgets all hash-consed terms except the Boolean constants (IDs stay unique). Called between
// batches of harnesses whose queries have been discharged, so memory is bounded by one batch.
func ResetTable() {
	table = map[key]*Term{}
	table[key{op: OConst, s: Bool, v: 1}] = True
	table[key{op: OConst, s: Bool, v: 0}] = False
	selectMemo = map[[2]int]*Term{}
	NumTerms = 2
	NumByOp = map[Op]int{}
}

func mask(w int) uint64 {
	if w >= 64 {
		return ^uint64(0)
	}
	return (uint64(1) << uint(w)) - 1
}

var True = mk(OConst, Bool, 1, "")
var False = mk(OConst, Bool, 0, "")

func BoolC(b bool) *Term {
	if b {
		return True
	}
	return False
}

func Const(w int, v uint64) *Term { return mk(OConst, BV(w), v&mask(w), "") }
func ConstI(w int, v int64) *Term { return Const(w, uint64(v)) }
func FConst(f float64) *Term      { return mk(OConst, FP64, math.Float64bits(f), "") }
func Var(name string, s Sort) *Term {
	if s.K == KFP {
		panic("smt: FP vars must be created via FFromBits(Var(bv64))")
	}
	return mk(OVar, s, 0, name)
}

func (t *Term) IsConst() bool { return t.Op == OConst }
func (t *Term) IsTrue() bool  { return t == True }
func (t *Term) IsFalse() bool { return t == False }
func (t *Term) Float() float64 { return math.Float64frombits(t.V) }

// SInt returns the constant value sign-extended.
func (t *Term) SInt() int64 {
	w := t.S.W
	if w >= 64 {
		return int64(t.V)
	}
	if t.V&(1<<uint(w-1)) != 0 {
		return int64(t.V | ^mask(w))
	}
	return int64(t.V)
}

func Not(a *Term) *Term {
	if a.IsConst() {
		return BoolC(a.V == 0)
	}
	if a.Op == ONot {
		return a.A[0]
	}
	return mk(ONot, Bool, 0, "", a)
}

func And(a, b *Term) *Term {
	if a.IsFalse() || b.IsFalse() {
		return False
	}
	if a.IsTrue() {
		return b
	}
	if b.IsTrue() {
		return a
	}
	if a == b {
		return a
	}
	if (a.Op == ONot && a.A[0] == b) || (b.Op == ONot && b.A[0] == a) {
		return False
	}
	// absorb: a ∧ (a ∧ x)
	if b.Op == OAnd && (b.A[0] == a || b.A[1] == a) {
		return b
	}
	if a.Op == OAnd && (a.A[0] == b || a.A[1] == b) {
		return a
	}
	if a.ID > b.ID {
		a, b = b, a
	}
	return mk(OAnd, Bool, 0, "", a, b)
}

func Or(a, b *Term) *Term {
	if a.IsTrue() || b.IsTrue() {
		return True
	}
	if a.IsFalse() {
		return b
	}
	if b.IsFalse() {
		return a
	}
	if a == b {
		return a
	}
	if (a.Op == ONot && a.A[0] == b) || (b.Op == ONot && b.A[0] == a) {
		return True
	}
	// (p ∧ c) ∨ (p ∧ ¬c) = p
	if a.Op == OAnd && b.Op == OAnd {
		for i := 0; i < 2; i++ {
			for j := 0; j < 2; j++ {
				if a.A[i] == b.A[j] {
					x, y := a.A[1-i], b.A[1-j]
					if (x.Op == ONot && x.A[0] == y) || (y.Op == ONot && y.A[0] == x) {
						return a.A[i]
					}
				}
			}
		}
	}
	if a.ID > b.ID {
		a, b = b, a
	}
	return mk(OOr, Bool, 0, "", a, b)
}

func AndN(ts ...*Term) *Term {
	r := True
	for _, t := range ts {
		r = And(r, t)
	}
	return r
}
func OrN(ts ...*Term) *Term {
	r := False
	for _, t := range ts {
		r = Or(r, t)
	}
	return r
}
func Implies(a, b *Term) *Term { return Or(Not(a), b) }

func Ite(c, a, b *Term) *Term {
	if a.S != b.S {
		panic(fmt.Sprintf("smt.Ite sort mismatch %v vs %v", a.S, b.S))
	}
	if c.IsTrue() {
		return a
	}
	if c.IsFalse() {
		return b
	}
	if a == b {
		return a
	}
	if a.S.K == KBool {
		if a.IsTrue() && b.IsFalse() {
			return c
		}
		if a.IsFalse() && b.IsTrue() {
			return Not(c)
		}
		if a.IsTrue() {
			return Or(c, b)
		}
		if a.IsFalse() {
			return And(Not(c), b)
		}
		if b.IsTrue() {
			return Or(Not(c), a)
		}
		if b.IsFalse() {
			return And(c, a)
		}
	}
	if c.Op == ONot {
		return Ite(c.A[0], b, a)
	}
	// ite(c, ite(c, x, y), b) = ite(c, x, b)
	if a.Op == OIte && a.A[0] == c {
		return Ite(c, a.A[1], b)
	}
	if b.Op == OIte && b.A[0] == c {
		return Ite(c, a, b.A[2])
	}
	return mk(OIte, a.S, 0, "", c, a, b)
}

func Eq(a, b *Term) *Term {
	if a.S != b.S {
		panic(fmt.Sprintf("smt.Eq sort mismatch %v vs %v", a.S, b.S))
	}
	if a.S.K == KFP {
		panic("smt.Eq on FP: use FEq or compare bits")
	}
	if a == b {
		return True
	}
	if a.IsConst() && b.IsConst() {
		return BoolC(a.V == b.V)
	}
	if a.S.K == KBool {
		if a.IsConst() {
			a, b = b, a
		}
		if b.IsTrue() {
			return a
		}
		if b.IsFalse() {
			return Not(a)
		}
	}
	// eq(ite(c,k1,k2), k) with constants
	if b.IsConst() && a.Op == OIte {
		return eqIteConst(a, b)
	}
	if a.IsConst() && b.Op == OIte {
		return eqIteConst(b, a)
	}
	if a.ID > b.ID {
		a, b = b, a
	}
	return mk(OEq, Bool, 0, "", a, b)
}

func eqIteConst(it, k *Term) *Term {
	// push equality through ite when at least one branch is constant (keeps map-key chains small)
	x, y := it.A[1], it.A[2]
	if x.IsConst() || y.IsConst() {
		return Ite(it.A[0], Eq(x, k), Eq(y, k))
	}
	a, b := it, k
	if a.ID > b.ID {
		a, b = b, a
	}
	return mk(OEq, Bool, 0, "", a, b)
}

func sx(v uint64, w int) int64 {
	if w >= 64 {
		return int64(v)
	}
	if v&(1<<uint(w-1)) != 0 {
		return int64(v | ^mask(w))
	}
	return int64(v)
}

func bin(op Op, a, b *Term) *Term {
	if a.S != b.S {
		panic(fmt.Sprintf("smt bin op %d sort mismatch %v vs %v", op, a.S, b.S))
	}
	w := a.S.W
	if a.IsConst() && b.IsConst() {
		x, y := a.V, b.V
		switch op {
		case OAdd:
			return Const(w, x+y)
		case OSub:
			return Const(w, x-y)
		case OMul:
			return Const(w, x*y)
		case OUDiv:
			if y == 0 {
				return Const(w, mask(w))
			}
			return Const(w, x/y)
		case OURem:
			if y == 0 {
				return Const(w, x)
			}
			return Const(w, x%y)
		case OSDiv:
			if y == 0 {
				if sx(x, w) < 0 {
					return Const(w, 1)
				}
				return Const(w, mask(w))
			}
			sxv, syv := sx(x, w), sx(y, w)
			if syv == -1 {
				return Const(w, uint64(-sxv))
			}
			return Const(w, uint64(sxv/syv))
		case OSRem:
			if y == 0 {
				return Const(w, x)
			}
			sxv, syv := sx(x, w), sx(y, w)
			if syv == -1 {
				return Const(w, 0)
			}
			return Const(w, uint64(sxv%syv))
		case OBAnd:
			return Const(w, x&y)
		case OBOr:
			return Const(w, x|y)
		case OBXor:
			return Const(w, x^y)
		case OShl:
			if y >= uint64(w) {
				return Const(w, 0)
			}
			return Const(w, x<<y)
		case OLShr:
			if y >= uint64(w) {
				return Const(w, 0)
			}
			return Const(w, x>>y)
		case OAShr:
			s := sx(x, w)
			if y >= uint64(w) {
				y = uint64(w - 1)
			}
			return Const(w, uint64(s>>y))
		case OUlt:
			return BoolC(x < y)
		case OUle:
			return BoolC(x <= y)
		case OSlt:
			return BoolC(sx(x, w) < sx(y, w))
		case OSle:
			return BoolC(sx(x, w) <= sx(y, w))
		}
	}
	rs := a.S
	switch op {
	case OUlt, OUle, OSlt, OSle:
		rs = Bool
	}
	// identities
	switch op {
	case OAdd:
		if a.IsConst() && a.V == 0 {
			return b
		}
		if b.IsConst() && b.V == 0 {
			return a
		}
		if a.IsConst() { // constants to the right
			a, b = b, a
		}
		// (x + c1) + c2
		if b.IsConst() && a.Op == OAdd && a.A[1].IsConst() {
			return bin(OAdd, a.A[0], Const(w, a.A[1].V+b.V))
		}
	case OSub:
		if b.IsConst() && b.V == 0 {
			return a
		}
		if a == b {
			return Const(w, 0)
		}
		if b.IsConst() {
			return bin(OAdd, a, Const(w, -b.V))
		}
	case OMul:
		if (a.IsConst() && a.V == 0) || (b.IsConst() && b.V == 0) {
			return Const(w, 0)
		}
		if a.IsConst() && a.V == 1 {
			return b
		}
		if b.IsConst() && b.V == 1 {
			return a
		}
	case OBAnd:
		if (a.IsConst() && a.V == 0) || (b.IsConst() && b.V == 0) {
			return Const(w, 0)
		}
		if a.IsConst() && a.V == mask(w) {
			return b
		}
		if b.IsConst() && b.V == mask(w) {
			return a
		}
		if a == b {
			return a
		}
	case OBOr:
		if a.IsConst() && a.V == 0 {
			return b
		}
		if b.IsConst() && b.V == 0 {
			return a
		}
		if a == b {
			return a
		}
	case OBXor:
		if a.IsConst() && a.V == 0 {
			return b
		}
		if b.IsConst() && b.V == 0 {
			return a
		}
	case OShl, OLShr, OAShr:
		if b.IsConst() && b.V == 0 {
			return a
		}
	case OUlt:
		if a == b {
			return False
		}
		if b.IsConst() && b.V == 0 {
			return False
		}
	case OUle:
		if a == b {
			return True
		}
		if a.IsConst() && a.V == 0 {
			return True
		}
	case OSlt:
		if a == b {
			return False
		}
	case OSle:
		if a == b {
			return True
		}
	}
	// push through ite with constant branches when other operand constant (keeps concrete-ish things concrete)
	if b.IsConst() && a.Op == OIte && a.A[1].IsConst() && a.A[2].IsConst() {
		return Ite(a.A[0], bin(op, a.A[1], b), bin(op, a.A[2], b))
	}
	if a.IsConst() && b.Op == OIte && b.A[1].IsConst() && b.A[2].IsConst() {
		return Ite(b.A[0], bin(op, a, b.A[1]), bin(op, a, b.A[2]))
	}
	return mk(op, rs, 0, "", a, b)
}

func Add(a, b *Term) *Term  { return bin(OAdd, a, b) }
func Sub(a, b *Term) *Term  { return bin(OSub, a, b) }
func Mul(a, b *Term) *Term  { return bin(OMul, a, b) }
func UDiv(a, b *Term) *Term { return bin(OUDiv, a, b) }
func URem(a, b *Term) *Term { return bin(OURem, a, b) }
func SDiv(a, b *Term) *Term { return bin(OSDiv, a, b) }
func SRem(a, b *Term) *Term { return bin(OSRem, a, b) }
func BAnd(a, b *Term) *Term { return bin(OBAnd, a, b) }
func BOr(a, b *Term) *Term  { return bin(OBOr, a, b) }
func BXor(a, b *Term) *Term { return bin(OBXor, a, b) }
func Shl(a, b *Term) *Term  { return bin(OShl, a, b) }
func LShr(a, b *Term) *Term { return bin(OLShr, a, b) }
func AShr(a, b *Term) *Term { return bin(OAShr, a, b) }
func Ult(a, b *Term) *Term  { return bin(OUlt, a, b) }
func Ule(a, b *Term) *Term  { return bin(OUle, a, b) }
func Slt(a, b *Term) *Term  { return bin(OSlt, a, b) }
func Sle(a, b *Term) *Term  { return bin(OSle, a, b) }
func Ugt(a, b *Term) *Term  { return bin(OUlt, b, a) }
func Uge(a, b *Term) *Term  { return bin(OUle, b, a) }
func Sgt(a, b *Term) *Term  { return bin(OSlt, b, a) }
func Sge(a, b *Term) *Term  { return bin(OSle, b, a) }

func BNot(a *Term) *Term {
	if a.IsConst() {
		return Const(a.S.W, ^a.V)
	}
	return mk(OBNot, a.S, 0, "", a)
}
func Neg(a *Term) *Term {
	if a.IsConst() {
		return Const(a.S.W, -a.V)
	}
	return mk(ONeg, a.S, 0, "", a)
}

func Extract(a *Term, hi, lo int) *Term {
	w := hi - lo + 1
	if lo == 0 && w == a.S.W {
		return a
	}
	if a.IsConst() {
		return Const(w, a.V>>uint(lo))
	}
	if a.Op == OIte && a.A[1].IsConst() && a.A[2].IsConst() {
		return Ite(a.A[0], Extract(a.A[1], hi, lo), Extract(a.A[2], hi, lo))
	}
	if (a.Op == OZExt || a.Op == OSExt) && lo == 0 {
		in := a.A[0]
		if w == in.S.W {
			return in
		}
		if w < in.S.W {
			return Extract(in, hi, lo)
		}
	}
	return mk(OExtract, BV(w), uint64(hi)<<8|uint64(lo), "", a)
}

func ZExt(a *Term, w int) *Term {
	if w == a.S.W {
		return a
	}
	if w < a.S.W {
		return Extract(a, w-1, 0)
	}
	if a.IsConst() {
		return Const(w, a.V)
	}
	if a.Op == OIte && a.A[1].IsConst() && a.A[2].IsConst() {
		return Ite(a.A[0], ZExt(a.A[1], w), ZExt(a.A[2], w))
	}
	if a.Op == OZExt {
		return ZExt(a.A[0], w)
	}
	return mk(OZExt, BV(w), 0, "", a)
}

func SExt(a *Term, w int) *Term {
	if w == a.S.W {
		return a
	}
	if w < a.S.W {
		return Extract(a, w-1, 0)
	}
	if a.IsConst() {
		return Const(w, uint64(sx(a.V, a.S.W)))
	}
	if a.Op == OIte && a.A[1].IsConst() && a.A[2].IsConst() {
		return Ite(a.A[0], SExt(a.A[1], w), SExt(a.A[2], w))
	}
	return mk(OSExt, BV(w), 0, "", a)
}

func Concat(a, b *Term) *Term {
	w := a.S.W + b.S.W
	if a.IsConst() && b.IsConst() && w <= 64 {
		return Const(w, a.V<<uint(b.S.W)|b.V)
	}
	return mk(OConcat, BV(w), 0, "", a, b)
}

// ---- floating point (float64, RNE) ----

func fbin(op Op, a, b *Term) *Term {
	if a.IsConst() && b.IsConst() {
		x, y := a.Float(), b.Float()
		switch op {
		case OFAdd:
			return FConst(x + y)
		case OFSub:
			return FConst(x - y)
		case OFMul:
			return FConst(x * y)
		case OFDiv:
			return FConst(x / y)
		case OFLt:
			return BoolC(x < y)
		case OFLe:
			return BoolC(x <= y)
		case OFEq:
			return BoolC(x == y)
		}
	}
	rs := FP64
	switch op {
	case OFLt, OFLe, OFEq:
		rs = Bool
	}
	// push through an ite with constant leaves when the other operand is constant (keeps table look-ups concrete)
	if b.IsConst() && a.Op == OIte && iteConstLeaves(a, 16) {
		return Ite(a.A[0], fbin(op, a.A[1], b), fbin(op, a.A[2], b))
	}
	if a.IsConst() && b.Op == OIte && iteConstLeaves(b, 16) {
		return Ite(b.A[0], fbin(op, a, b.A[1]), fbin(op, a, b.A[2]))
	}
	return mk(op, rs, 0, "", a, b)
}

// iteConstLeaves: t is an ite tree (depth <= d) whose leaves are all constants.
func iteConstLeaves(t *Term, d int) bool {
	if t.IsConst() {
		return true
	}
	if t.Op != OIte || d == 0 {
		return false
	}
	return iteConstLeaves(t.A[1], d-1) && iteConstLeaves(t.A[2], d-1)
}

func FAdd(a, b *Term) *Term { return fbin(OFAdd, a, b) }
func FSub(a, b *Term) *Term { return fbin(OFSub, a, b) }
func FMul(a, b *Term) *Term { return fbin(OFMul, a, b) }
func FDiv(a, b *Term) *Term { return fbin(OFDiv, a, b) }
func FLt(a, b *Term) *Term  { return fbin(OFLt, a, b) }
func FLe(a, b *Term) *Term  { return fbin(OFLe, a, b) }
func FEq(a, b *Term) *Term  { return fbin(OFEq, a, b) }
func FNeg(a *Term) *Term {
	if a.IsConst() {
		return FConst(-a.Float())
	}
	return mk(OFNeg, FP64, 0, "", a)
}
func FAbs(a *Term) *Term {
	if a.IsConst() {
		return FConst(math.Abs(a.Float()))
	}
	return mk(OFAbs, FP64, 0, "", a)
}
func FFloor(a *Term) *Term {
	if a.IsConst() {
		return FConst(math.Floor(a.Float()))
	}
	return mk(OFFloor, FP64, 0, "", a)
}
func FIsNaN(a *Term) *Term {
	if a.IsConst() {
		return BoolC(math.IsNaN(a.Float()))
	}
	return mk(OFIsNaN, Bool, 0, "", a)
}
func FFromSBV(a *Term) *Term {
	if a.IsConst() {
		return FConst(float64(a.SInt()))
	}
	if a.Op == OIte && iteConstLeaves(a, 16) {
		return Ite(a.A[0], FFromSBV(a.A[1]), FFromSBV(a.A[2]))
	}
	return mk(OFFromSBV, FP64, 0, "", a)
}
func FFromUBV(a *Term) *Term {
	if a.IsConst() {
		return FConst(float64(a.V))
	}
	if a.Op == OIte && iteConstLeaves(a, 16) {
		return Ite(a.A[0], FFromUBV(a.A[1]), FFromUBV(a.A[2]))
	}
	return mk(OFFromUBV, FP64, 0, "", a)
}
func FFromBits(a *Term) *Term {
	if a.S.W != 64 {
		panic("FFromBits needs bv64")
	}
	if a.IsConst() {
		return mk(OConst, FP64, a.V, "")
	}
	return mk(OFFromBits, FP64, 0, "", a)
}

// goFloatToInt64 mirrors amd64 CVTTSD2SQ: out-of-range and NaN give 0x8000000000000000.
func goFloatToInt64(f float64) int64 {
	if math.IsNaN(f) || f >= 9223372036854775808.0 || f < -9223372036854775808.0 {
		return math.MinInt64
	}
	return int64(f)
}

// FToInt converts float64 to a signed integer of width w the way Go on amd64 does:
// via 64-bit truncation (indefinite value on overflow/NaN) followed by truncation to w bits.
func FToInt(a *Term, w int) *Term {
	if a.IsConst() {
		return Const(w, uint64(goFloatToInt64(a.Float())))
	}
	if a.Op == OIte && iteConstLeaves(a, 16) {
		return Ite(a.A[0], FToInt(a.A[1], w), FToInt(a.A[2], w))
	}
	raw := mk(OFToSBVRaw, BV(64), 0, "", a)
	lo := FConst(-9223372036854775808.0)
	hi := FConst(9223372036854775808.0)
	inRange := And(FLe(lo, a), FLt(a, hi)) // false for NaN
	r := Ite(inRange, raw, Const(64, 1<<63))
	return Extract(r, w-1, 0)
}

// ---- arrays ----

func ArrConst(iw int, elem *Term) *Term {
	return mk(OArrConst, Arr(iw, elem.S), 0, "", elem)
}

// Select reads an array. Store chains, constant arrays and ite-of-arrays are expanded eagerly
// (read-over-write), so that queries stay in pure bit-vector logic; the array terms are only a compact
// representation of the writes.
var selectMemo = map[[2]int]*Term{}

func Select(a, i *Term) *Term {
	k := [2]int{a.ID, i.ID}
	if r, ok := selectMemo[k]; ok {
		return r
	}
	// iterative descent collecting the undecided layers
	type layer struct{ cond, val *Term }
	var layers []layer
	cur := a
	var base *Term
	for base == nil {
		switch cur.Op {
		case OArrConst:
			base = cur.A[0]
		case OStore:
			idx := cur.A[1]
			if idx == i {
				base = cur.A[2]
			} else if idx.IsConst() && i.IsConst() {
				cur = cur.A[0]
			} else {
				layers = append(layers, layer{Eq(idx, i), cur.A[2]})
				cur = cur.A[0]
			}
		case OIte:
			base = Ite(cur.A[0], Select(cur.A[1], i), Select(cur.A[2], i))
		default:
			base = mk(OSelect, cur.S.Elem(), 0, "", cur, i)
		}
	}
	r := base
	for n := len(layers) - 1; n >= 0; n-- {
		r = Ite(layers[n].cond, layers[n].val, r)
	}
	selectMemo[k] = r
	return r
}

func Store(a, i, v *Term) *Term {
	if a.Op == OArrConst && a.A[0] == v {
		return a
	}
	if a.Op == OStore && a.A[1] == i {
		return Store(a.A[0], i, v)
	}
	// storing the value already there
	if v.Op == OSelect && v.A[0] == a && v.A[1] == i {
		return a
	}
	return mk(OStore, a.S, 0, "", a, i, v)
}

// IteArr merges two arrays without an ite over arrays when one extends the other by stores.
func IteArr(c, a, b *Term) *Term {
	if a == b {
		return a
	}
	if c.IsTrue() {
		return a
	}
	if c.IsFalse() {
		return b
	}
	ext := func(long, short *Term) ([]*Term, bool) {
		var chain []*Term
		x := long
		for d := 0; d < 4096; d++ {
			if x == short {
				return chain, true
			}
			if x.Op != OStore {
				return nil, false
			}
			chain = append(chain, x)
			x = x.A[0]
		}
		return nil, false
	}
	if chain, ok := ext(a, b); ok {
		cur := b
		for k := len(chain) - 1; k >= 0; k-- {
			st := chain[k]
			cur = Store(cur, st.A[1], Ite(c, st.A[2], Select(cur, st.A[1])))
		}
		return cur
	}
	if chain, ok := ext(b, a); ok {
		cur := a
		for k := len(chain) - 1; k >= 0; k-- {
			st := chain[k]
			cur = Store(cur, st.A[1], Ite(c, Select(cur, st.A[1]), st.A[2]))
		}
		return cur
	}
	return Ite(c, a, b)
}

// ---- helpers ----

func (t *Term) String() string {
	var sb strings.Builder
	printTerm(&sb, t, nil)
	return sb.String()
}

func bvlit(w int, v uint64) string {
	if w%4 == 0 {
		return fmt.Sprintf("#x%0*x", w/4, v)
	}
	return fmt.Sprintf("#b%0*b", w, v)
}

func fplit(b uint64) string {
	return fmt.Sprintf("(fp #b%b #b%011b #b%052b)", b>>63, (b>>52)&0x7ff, b&((1<<52)-1))
}

var opNames = map[Op]string{
	ONot: "not", OAnd: "and", OOr: "or", OIte: "ite", OEq: "=",
	OAdd: "bvadd", OSub: "bvsub", OMul: "bvmul", OUDiv: "bvudiv", OURem: "bvurem", OSDiv: "bvsdiv", OSRem: "bvsrem",
	OBAnd: "bvand", OBOr: "bvor", OBXor: "bvxor", OBNot: "bvnot", ONeg: "bvneg", OShl: "bvshl", OLShr: "bvlshr", OAShr: "bvashr",
	OUlt: "bvult", OUle: "bvule", OSlt: "bvslt", OSle: "bvsle", OConcat: "concat",
	OFAdd: "fp.add RNE", OFSub: "fp.sub RNE", OFMul: "fp.mul RNE", OFDiv: "fp.div RNE", OFNeg: "fp.neg", OFAbs: "fp.abs", OFFloor: "fp.roundToIntegral RTN",
	OFLt: "fp.lt", OFLe: "fp.leq", OFEq: "fp.eq", OFIsNaN: "fp.isNaN",
	OFFromSBV: "(_ to_fp 11 53) RNE", OFFromUBV: "(_ to_fp_unsigned 11 53) RNE", OFFromBits: "(_ to_fp 11 53)",
	OFToSBVRaw: "(_ fp.to_sbv 64) RTZ",
	OSelect: "select", OStore: "store",
}

func printTerm(sb *strings.Builder, t *Term, named map[int]bool) {
	if named != nil && named[t.ID] {
		fmt.Fprintf(sb, "t%d", t.ID)
		return
	}
	switch t.Op {
	case OConst:
		switch t.S.K {
		case KBool:
			if t.V != 0 {
				sb.WriteString("true")
			} else {
				sb.WriteString("false")
			}
		case KBV:
			sb.WriteString(bvlit(t.S.W, t.V))
		case KFP:
			sb.WriteString(fplit(t.V))
		}
	case OVar:
		sb.WriteString(quoteSym(t.Name))
	case OArrConst:
		fmt.Fprintf(sb, "((as const %s) ", t.S)
		printTerm(sb, t.A[0], named)
		sb.WriteString(")")
	case OExtract:
		fmt.Fprintf(sb, "((_ extract %d %d) ", t.V>>8, t.V&0xff)
		printTerm(sb, t.A[0], named)
		sb.WriteString(")")
	case OZExt:
		fmt.Fprintf(sb, "((_ zero_extend %d) ", t.S.W-t.A[0].S.W)
		printTerm(sb, t.A[0], named)
		sb.WriteString(")")
	case OSExt:
		fmt.Fprintf(sb, "((_ sign_extend %d) ", t.S.W-t.A[0].S.W)
		printTerm(sb, t.A[0], named)
		sb.WriteString(")")
	default:
		sb.WriteString("(")
		sb.WriteString(opNames[t.Op])
		for _, a := range t.A {
			sb.WriteString(" ")
			printTerm(sb, a, named)
		}
		sb.WriteString(")")
	}
}

func quoteSym(s string) string {
	for _, c := range s {
		if !(c >= 'a' && c <= 'z' || c >= 'A' && c <= 'Z' || c >= '0' && c <= '9' || c == '_' || c == '.' || c == '!' || c == '$') {
			return "|" + s + "|"
		}
	}
	return s
}

// Script renders declarations and definitions for the DAG rooted at roots, then (assert root_i).
func Script(roots []*Term) (string, []*Term) {
	var order []*Term
	seen := map[int]bool{}
	var vars []*Term
	// iterative post-order
	type fr struct {
		t *Term
		i int
	}
	for _, r := range roots {
		if seen[r.ID] {
			continue
		}
		stack := []fr{{r, 0}}
		seen[r.ID] = true
		for len(stack) > 0 {
			top := &stack[len(stack)-1]
			if top.i < len(top.t.A) {
				c := top.t.A[top.i]
				top.i++
				if !seen[c.ID] {
					seen[c.ID] = true
					stack = append(stack, fr{c, 0})
				}
				continue
			}
			order = append(order, top.t)
			stack = stack[:len(stack)-1]
		}
	}
	var sb strings.Builder
	named := map[int]bool{}
	for _, t := range order {
		if t.Op == OVar {
			vars = append(vars, t)
		}
	}
	sort.Slice(vars, func(i, j int) bool { return vars[i].Name < vars[j].Name })
	for _, v := range vars {
		fmt.Fprintf(&sb, "(declare-const %s %s)\n", quoteSym(v.Name), v.S)
	}
	for _, t := range order {
		if t.Op == OVar || t.Op == OConst {
			continue
		}
		fmt.Fprintf(&sb, "(define-fun t%d () %s ", t.ID, t.S)
		printTerm(&sb, t, named)
		sb.WriteString(")\n")
		named[t.ID] = true
	}
	for _, r := range roots {
		sb.WriteString("(assert ")
		printTerm(&sb, r, named)
		sb.WriteString(")\n")
	}
	return sb.String(), vars
}

// Eval evaluates t under an assignment of variables (missing vars = 0).
func Eval(t *Term, env map[string]uint64, memo map[int]uint64) uint64 {
	if v, ok := memo[t.ID]; ok {
		return v
	}
	var r uint64
	switch t.Op {
	case OConst:
		r = t.V
	case OVar:
		r = env[t.Name] & func() uint64 {
			if t.S.K == KBool {
				return 1
			}
			return mask(t.S.W)
		}()
	default:
		args := make([]*Term, len(t.A))
		if t.Op == OIte {
			c := Eval(t.A[0], env, memo)
			if c != 0 {
				r = Eval(t.A[1], env, memo)
			} else {
				r = Eval(t.A[2], env, memo)
			}
			memo[t.ID] = r
			return r
		}
		for i, a := range t.A {
			v := Eval(a, env, memo)
			args[i] = mk(OConst, a.S, v, "")
		}
		var c *Term
		switch t.Op {
		case ONot:
			c = Not(args[0])
		case OAnd:
			c = And(args[0], args[1])
		case OOr:
			c = Or(args[0], args[1])
		case OEq:
			c = Eq(args[0], args[1])
		case OBNot:
			c = BNot(args[0])
		case ONeg:
			c = Neg(args[0])
		case OConcat:
			c = Concat(args[0], args[1])
		case OExtract:
			c = Extract(args[0], int(t.V>>8), int(t.V&0xff))
		case OZExt:
			c = ZExt(args[0], t.S.W)
		case OSExt:
			c = SExt(args[0], t.S.W)
		case OFNeg:
			c = FNeg(args[0])
		case OFAbs:
			c = FAbs(args[0])
		case OFFloor:
			c = FFloor(args[0])
		case OFIsNaN:
			c = FIsNaN(args[0])
		case OFFromSBV:
			c = FFromSBV(args[0])
		case OFFromUBV:
			c = FFromUBV(args[0])
		case OFFromBits:
			c = FFromBits(args[0])
		case OFToSBVRaw:
			c = Const(64, uint64(goFloatToInt64(args[0].Float())))
		case OFAdd, OFSub, OFMul, OFDiv, OFLt, OFLe, OFEq:
			c = fbin(t.Op, args[0], args[1])
		default:
			c = bin(t.Op, args[0], args[1])
		}
		if !c.IsConst() {
			panic("smt.Eval: non-constant result for op " + opNames[t.Op])
		}
		r = c.V
	}
	memo[t.ID] = r
	return r
}

// Size returns the number of distinct nodes reachable from roots.
func Size(roots ...*Term) int {
	seen := map[int]bool{}
	var st []*Term
	st = append(st, roots...)
	for len(st) > 0 {
		t := st[len(st)-1]
		st = st[:len(st)-1]
		if seen[t.ID] {
			continue
		}
		seen[t.ID] = true
		st = append(st, t.A...)
	}
	return len(seen)
}

var _ = bits.Len
